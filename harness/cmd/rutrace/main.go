// rutrace: engine E1.  Generates seeded scenarios (operation sequences on 1–3 REAL nodes plus scripted
// honest/adversarial neighbours), executes them on the real code, pipes every operation with the observed
// state to the Lean driver and collects DIFF / PROP / harness failures.  One JSON summary on stdout.
package main

import (
	"encoding/json"
	"flag"
	"fmt"
	"math/rand"
	"os"
	"path/filepath"
	"sort"
	"strings"
	"time"

	"github.com/my-cloud/ruthenium/validatornode/application"
	"github.com/my-cloud/ruthenium/validatornode/domain/ledger"

	"ruverif/internal/node"
	"ruverif/internal/trace"
)

const T0 = int64(1_700_000_040_000_000_000)

type scenario struct {
	w       *trace.World
	rng     *rand.Rand
	profile string
	clock   int64 // global aligned clock
	advs    int
	nontriv map[string]bool

	zeroYieldSiblings map[string]bool // ids of admitted transactions [amount, 0 yielding rest]
}

func pick[T any](r *rand.Rand, xs []T) T { return xs[r.Intn(len(xs))] }

func genSettings(r *rand.Rand, profile string) *node.Settings {
	s := node.DefaultSettings()
	// the per-neighbour timeout is REAL time: generous outside the faults profile so that a loaded machine does not
	// turn an answered request into a timeout (silent neighbours then cost this much each)
	s.Timeout = 1500 * time.Millisecond
	if profile == "faults" {
		s.Timeout = 250 * time.Millisecond
	}
	s.Interval = pick(r, []int64{int64(time.Second), int64(time.Minute), 5 * int64(time.Minute)})
	s.MinFee = pick(r, []uint64{1, 2, 1000})
	s.BlocksLimit = pick(r, []uint64{3, 4, 5, 7, 100, 100})
	if profile == "catchup" || profile == "agree" {
		s.BlocksLimit = pick(r, []uint64{3, 4, 5, 7, 9, 100})
	}
	s.Genesis = pick(r, []uint64{10_000_000, 1_000_000_000, 100_000_000_000_000})
	// half-life short enough that values move between blocks
	s.HalfLife = float64(s.Interval) * pick(r, []float64{3, 50, 100000})
	s.Base = pick(r, []uint64{1000, 50_000, 50_000_000_000})
	s.Limit = s.Base * pick(r, []uint64{2, 20, 1000})
	return s
}

func (sc *scenario) node(i int) *node.Node { return sc.w.Nodes[i] }

// per-profile favoured templates (70 % of the draws); every profile still draws from the full lists
var favTx = map[string][]string{
	"value":  {"valid", "zero-yield-rest", "same-input-twice-rich", "yield-swap", "fee-exact", "fee-low", "fee-plus1", "overflow", "huge-output", "huge-output", "many-outputs", "consolidate", "zero-output"},
	"spend":  {"valid", "double-spend", "same-input-twice", "same-input-twice-rich", "spend-pooled", "spend-last-block", "duplicate", "bad-index", "unknown-ref"},
	"owner":  {"valid", "valid", "bad-sig-first", "bad-sig-first", "zero-first-outputs", "zero-first-outputs", "shifted-owner", "shifted-owner", "shifted-owner", "many-outputs", "bad-sig", "zero-sig", "wrong-owner", "wrong-owner-2nd", "wrong-owner-2nd", "foreign-sig", "replay-sig", "replay-sig", "unknown-ref"},
	"shape":  {"valid", "ts-old", "ts-last", "ts-next", "ts-future"},
	"income": {"valid", "valid", "yield-new", "yield-new", "yield-twice", "yield-registered", "yield-pending", "yield-swap", "yield-swap", "zero-yield-rest", "zero-yield-rest", "zero-yield-rest"},
	"alias":  {"valid", "yield-new", "yield-new", "yield-registered"},
	"pool":   {"valid", "valid", "yield-swap", "yield-swap", "yield-swap", "yield-swap", "yield-swap", "duplicate", "double-spend", "fee-low", "fee-exact", "ts-old", "ts-future", "ts-next", "ts-last", "same-input-twice"},
	"agree":  {"valid", "valid", "yield-pending", "yield-swap", "yield-swap", "fee-exact", "ts-last", "ts-next", "yield-new", "yield-registered", "consolidate", "zero-output", "spend-last-block", "spend-pooled"},
}
var favBreak = map[string][]string{
	"value":  {"reward-plus1", "low-fee", "ok-fee", "huge-output"},
	"spend":  {"double-spend", "unknown-input", "ok-fee", "replay-tx", "replay-tx"},
	"owner":  {"bad-sig-tx", "steal", "ok-fee"},
	"shape":  {"bad-ts", "no-reward", "two-rewards", "tx-future", "tx-old", "unlinked"},
	"income": {"yield-unregistered", "yield-listed", "yield-listed-then-unregistered", "yield-listed-then-unregistered", "removed-listed"},
	"fork":   {"ok-fee", "yield-listed", "removed-listed", "ok-fee"},
}

func (sc *scenario) txKind() string {
	if f, ok := favTx[sc.profile]; ok && sc.rng.Intn(10) < 7 {
		return pick(sc.rng, f)
	}
	return pick(sc.rng, txKinds)
}

func (sc *scenario) breakKind() string {
	if f, ok := favBreak[sc.profile]; ok && sc.rng.Intn(10) < 7 {
		return pick(sc.rng, f)
	}
	return pick(sc.rng, breakKinds)
}

func (sc *scenario) mark(s string) { sc.nontriv[s] = true }

// ---------------------------------------------------------------- transaction templates

type utxoRef struct {
	u     *ledger.Utxo
	owner *node.Wallet
}

func (sc *scenario) walletOf(addr string) *node.Wallet {
	for _, w := range sc.w.Wallets {
		if w.Address == addr {
			return w
		}
	}
	return nil
}

func (sc *scenario) confirmed(n *node.Node) []utxoRef {
	var res []utxoRef
	for _, w := range sc.w.Wallets {
		for _, u := range n.Utxos.Utxos(w.Address) {
			res = append(res, utxoRef{u, w})
		}
	}
	return res
}

func (sc *scenario) value(u *ledger.Utxo, at int64) uint64 {
	return u.Value(at, sc.w.S.HalfLife, sc.w.S.Base, sc.w.S.Limit)
}

var txKinds = []string{"valid", "valid", "valid", "valid", "fee-exact", "fee-low", "fee-plus1", "double-spend", "duplicate", "bad-sig",
	"zero-sig", "wrong-owner", "wrong-owner-2nd", "foreign-sig", "replay-sig", "unknown-ref", "bad-index", "ts-old", "ts-last", "ts-next", "ts-future", "overflow", "huge-output",
	"yield-new", "yield-twice", "yield-registered", "yield-swap", "same-input-twice", "same-input-twice-rich", "spend-pooled", "spend-last-block", "yield-pending", "bad-sig-first", "zero-yield-rest", "zero-output", "zero-first-outputs", "shifted-owner", "many-outputs", "consolidate"}

func (sc *scenario) makeTx(n *node.Node, kind string) (*ledger.Transaction, string) {
	r := sc.rng
	S := sc.w.S
	last := n.Chain.LastBlockTimestamp()
	next := last + S.Interval
	ts := last + r.Int63n(S.Interval+1)
	conf := sc.confirmed(n)
	if len(conf) == 0 && kind != "unknown-ref" {
		return nil, ""
	}
	other := func() *node.Wallet { return pick(r, sc.w.Wallets) }
	var spends []node.Spend
	var inV uint64
	usable := conf
	if kind != "double-spend" && sc.rng.Intn(10) > 0 {
		// wallet-style: avoid outputs already consumed by the last block or by pooled transactions
		used := map[string]bool{}
		for _, t := range append(append([]*ledger.Transaction{}, n.Pool.Transactions()...), n.Chain.LastBlockTransactions()...) {
			for _, in := range t.Inputs() {
				used[fmt.Sprintf("%s:%d", in.TransactionId(), in.OutputIndex())] = true
			}
		}
		usable = nil
		for _, u := range conf {
			if !used[fmt.Sprintf("%s:%d", u.u.TransactionId(), u.u.OutputIndex())] {
				usable = append(usable, u)
			}
		}
		if len(usable) == 0 {
			return nil, ""
		}
	}
	pickSome := func(k int) {
		r.Shuffle(len(usable), func(i, j int) { usable[i], usable[j] = usable[j], usable[i] })
		if r.Intn(2) == 0 {
			// prefer the sibling of an empty yielding output: spending it must leave the empty one resolvable
			for i := range usable {
				if sc.zeroYieldSiblings[usable[i].u.TransactionId()] {
					usable[0], usable[i] = usable[i], usable[0]
					break
				}
			}
		}
		for i := 0; i < k && i < len(usable); i++ {
			u := usable[i]
			spends = append(spends, node.Spend{TxId: u.u.TransactionId(), Index: u.u.OutputIndex(), By: u.owner})
			inV += sc.value(u.u, next)
		}
	}
	outs := func(total uint64, fee uint64, yield string) []node.RawOutput {
		if total < fee {
			return []node.RawOutput{{Address: other().Address, IsYielding: false, Value: 0}}
		}
		rest := total - fee
		a := rest / uint64(2+r.Intn(3))
		o := []node.RawOutput{{Address: other().Address, IsYielding: false, Value: a}, {Address: spends[0].By.Address, IsYielding: false, Value: rest - a}}
		switch yield {
		case "new":
			o[0].IsYielding = true
		case "twice":
			o[0].IsYielding = true
			o = append(o, node.RawOutput{Address: o[0].Address, IsYielding: true, Value: 0})
		}
		return o
	}
	mk := func(sp []node.Spend, o []node.RawOutput, t int64) *ledger.Transaction {
		tx, _, err := node.MakeTx(sp, o, t)
		if err != nil {
			return nil
		}
		return tx
	}
	switch kind {
	case "valid":
		pickSome(1 + r.Intn(2))
		return mk(spends, outs(inV, S.MinFee+uint64(r.Intn(3)), ""), ts), kind
	case "consolidate":
		pickSome(len(usable))
		return mk(spends, outs(inV, S.MinFee, ""), ts), kind
	case "fee-exact":
		pickSome(1)
		return mk(spends, outs(inV, S.MinFee, ""), next), kind // valued exactly at next
	case "fee-low":
		pickSome(1)
		if S.MinFee == 0 {
			return nil, ""
		}
		return mk(spends, outs(inV, S.MinFee-1, ""), next), kind
	case "fee-plus1":
		pickSome(1)
		return mk(spends, outs(inV, S.MinFee+1, ""), next), kind
	case "double-spend":
		// reuse an input of a pooled transaction or of the last block
		var cands []*ledger.Transaction
		cands = append(cands, n.Pool.Transactions()...)
		cands = append(cands, n.Chain.LastBlockTransactions()...)
		for _, t := range cands {
			for _, in := range t.Inputs() {
				src := sc.findUtxoAnywhere(n, in.TransactionId(), in.OutputIndex())
				if src.owner != nil {
					spends = []node.Spend{{TxId: in.TransactionId(), Index: in.OutputIndex(), By: src.owner}}
					return mk(spends, []node.RawOutput{{Address: other().Address, Value: 1}}, ts), kind
				}
			}
		}
		return nil, ""
	case "duplicate":
		p := n.Pool.Transactions()
		if len(p) == 0 {
			return nil, ""
		}
		return pick(r, p), kind
	case "bad-sig", "zero-sig", "foreign-sig", "wrong-owner", "replay-sig":
		pickSome(1)
		u := usable[0]
		raw := &node.RawTx{Timestamp: ts, Outputs: outs(inV, S.MinFee, "")}
		in := node.RawInput{OutputIndex: u.u.OutputIndex(), TransactionId: u.u.TransactionId(), PublicKey: u.owner.PubHex, Signature: u.owner.Sign(u.u.OutputIndex(), u.u.TransactionId())}
		switch kind {
		case "bad-sig":
			b := []byte(in.Signature)
			pos := r.Intn(len(b))
			if b[pos] == 'a' {
				b[pos] = 'b'
			} else {
				b[pos] = 'a'
			}
			in.Signature = string(b)
		case "zero-sig":
			in.Signature = strings.Repeat("0", 128)
			if r.Intn(2) == 0 {
				in.Signature = strings.Repeat("f", 128)
			}
		case "foreign-sig": // signature by another wallet, key of the owner
			o := other()
			if o == u.owner {
				return nil, ""
			}
			in.Signature = o.Sign(u.u.OutputIndex(), u.u.TransactionId())
		case "replay-sig": // the owner's key with a signature the owner made over ANOTHER output reference, preferably
			// one this node has already verified (published in its chain or pool)
			var seen []string
			for _, b := range n.AllBlocks() {
				for _, t := range b.Transactions() {
					for _, i := range t.Inputs() {
						if i.Address() == u.owner.Address && (i.TransactionId() != u.u.TransactionId() || i.OutputIndex() != u.u.OutputIndex()) {
							seen = append(seen, node.SigHexOf(i))
						}
					}
				}
			}
			for _, t := range n.Pool.Transactions() {
				for _, i := range t.Inputs() {
					if i.Address() == u.owner.Address && (i.TransactionId() != u.u.TransactionId() || i.OutputIndex() != u.u.OutputIndex()) {
						seen = append(seen, node.SigHexOf(i))
					}
				}
			}
			if len(seen) > 0 {
				in.Signature = pick(r, seen)
			} else {
				in.Signature = u.owner.Sign(u.u.OutputIndex()+1, u.u.TransactionId())
			}
		case "wrong-owner": // key and valid signature of another wallet
			o := other()
			if o == u.owner {
				return nil, ""
			}
			in.PublicKey = o.PubHex
			in.Signature = o.Sign(u.u.OutputIndex(), u.u.TransactionId())
		}
		raw.Inputs = []node.RawInput{in}
		tx, err := raw.Seal()
		if err != nil {
			return nil, ""
		}
		return tx, kind
	case "bad-sig-first": // two inputs: the FIRST names its owner's key but carries a signature made by another wallet
		// (invalid for that key), the LAST is the other wallet's own output, genuinely signed
		var victim, own *utxoRef
		for i := range usable {
			for j := range usable {
				if usable[i].owner != usable[j].owner && victim == nil {
					victim, own = &usable[i], &usable[j]
				}
			}
		}
		if victim == nil {
			return nil, ""
		}
		thief := own.owner
		total := sc.value(victim.u, next) + sc.value(own.u, next)
		if total <= S.MinFee+1 {
			return nil, ""
		}
		raw := &node.RawTx{Timestamp: ts, Outputs: []node.RawOutput{{Address: thief.Address, Value: total - S.MinFee - 1}}}
		raw.Inputs = []node.RawInput{
			{OutputIndex: victim.u.OutputIndex(), TransactionId: victim.u.TransactionId(), PublicKey: victim.owner.PubHex, Signature: thief.Sign(victim.u.OutputIndex(), victim.u.TransactionId())},
			{OutputIndex: own.u.OutputIndex(), TransactionId: own.u.TransactionId(), PublicKey: thief.PubHex, Signature: thief.Sign(own.u.OutputIndex(), own.u.TransactionId())},
		}
		tx, err := raw.Seal()
		if err != nil {
			return nil, ""
		}
		return tx, kind
	case "wrong-owner-2nd": // two outputs of ONE owner; the first input is the owner's, the second names another wallet's key
		// with that wallet's valid signature over the reference
		byOwner := map[*node.Wallet][]utxoRef{}
		for _, u := range usable {
			byOwner[u.owner] = append(byOwner[u.owner], u)
		}
		var victim []utxoRef
		for _, wl := range sc.w.Wallets {
			if len(byOwner[wl]) >= 2 {
				victim = byOwner[wl]
				break
			}
		}
		if victim == nil {
			return nil, ""
		}
		a, b := victim[0], victim[1]
		thief := other()
		if thief == a.owner {
			return nil, ""
		}
		total := sc.value(a.u, next) + sc.value(b.u, next)
		if total <= S.MinFee+1 {
			return nil, ""
		}
		raw := &node.RawTx{Timestamp: ts, Outputs: []node.RawOutput{{Address: thief.Address, Value: total - S.MinFee - 1}}}
		raw.Inputs = []node.RawInput{
			{OutputIndex: a.u.OutputIndex(), TransactionId: a.u.TransactionId(), PublicKey: a.owner.PubHex, Signature: a.owner.Sign(a.u.OutputIndex(), a.u.TransactionId())},
			{OutputIndex: b.u.OutputIndex(), TransactionId: b.u.TransactionId(), PublicKey: thief.PubHex, Signature: thief.Sign(b.u.OutputIndex(), b.u.TransactionId())},
		}
		tx, err := raw.Seal()
		if err != nil {
			return nil, ""
		}
		return tx, kind
	case "unknown-ref":
		w := other()
		id := node.Sha256Hex([]byte(fmt.Sprint(r.Int63())))
		return mk([]node.Spend{{TxId: id, Index: 0, By: w}}, []node.RawOutput{{Address: w.Address, Value: 1}}, ts), kind
	case "bad-index":
		pickSome(1)
		spends[0].Index += uint16(1 + r.Intn(3))
		return mk(spends, outs(inV, S.MinFee, ""), ts), kind
	case "ts-old":
		pickSome(1)
		return mk(spends, outs(inV, S.MinFee, ""), last-1), kind
	case "ts-last":
		pickSome(1)
		return mk(spends, outs(inV, S.MinFee, ""), last), kind
	case "ts-next":
		pickSome(1)
		return mk(spends, outs(inV, S.MinFee, ""), next), kind
	case "ts-future":
		pickSome(1)
		return mk(spends, outs(inV, S.MinFee, ""), next+1), kind
	case "overflow":
		pickSome(1)
		return mk(spends, []node.RawOutput{{Address: other().Address, Value: 1 << 63}, {Address: other().Address, Value: (1 << 63) + uint64(r.Intn(1000))}}, ts), kind
	case "huge-output": // one output just below 2^64: no sum of OUTPUTS wraps, but outputs + fee does
		pickSome(1)
		hv := pick(r, []uint64{^uint64(0), ^uint64(0) - S.MinFee + 1, ^uint64(0) - S.MinFee, ^uint64(0) - S.MinFee - 1, ^uint64(0) - inV, ^uint64(0) - inV + S.MinFee})
		return mk(spends, []node.RawOutput{{Address: other().Address, Value: hv}}, ts), kind
	case "yield-new":
		pickSome(1)
		return mk(spends, outs(inV, S.MinFee, "new"), ts), kind
	case "zero-yield-rest": // the wallet's "send everything, keep the income": [all -> recipient, 0 YIELDING -> sender]; the
		// empty yielding rest is a live output (income accrues on it) and must outlive the spending of its sibling
		for i := range usable {
			u := usable[i]
			if !n.Reg.IsRegistered(u.owner.Address) {
				continue
			}
			hasOther := false
			for _, c := range conf {
				if c.owner == u.owner && c.u.IsYielding() && !(c.u.TransactionId() == u.u.TransactionId() && c.u.OutputIndex() == u.u.OutputIndex()) {
					hasOther = true
				}
			}
			v := sc.value(u.u, next)
			if hasOther || v <= S.MinFee+1 {
				continue
			}
			var to *node.Wallet
			for _, c := range sc.w.Wallets {
				if c != u.owner {
					to = c
				}
			}
			if to == nil {
				continue
			}
			return mk([]node.Spend{{TxId: u.u.TransactionId(), Index: u.u.OutputIndex(), By: u.owner}},
				[]node.RawOutput{{Address: to.Address, Value: v - S.MinFee}, {Address: u.owner.Address, IsYielding: true, Value: 0}}, ts), kind
		}
		return nil, ""
	case "yield-twice":
		pickSome(1)
		return mk(spends, outs(inV, S.MinFee, "twice"), ts), kind
	case "yield-registered":
		pickSome(1)
		o := outs(inV, S.MinFee, "")
		if len(o) < 2 {
			return nil, ""
		}
		o[1].IsYielding = true // rest back to sender, yielding
		return mk(spends, o, ts), kind
	case "yield-pending": // a yielding output for an address that waits in the node's pending-removal list (still
		// registered until a block listing it as removed is confirmed): its own income renewed, or a first income
		for _, a := range n.Reg.VerifPendingRemovals() {
			wl := sc.walletOf(a)
			if wl == nil {
				continue
			}
			var own, plain *utxoRef
			for i := range usable {
				u := &usable[i]
				if u.owner == wl && u.u.IsYielding() && own == nil {
					own = u
				}
				if !u.u.IsYielding() && plain == nil && sc.value(u.u, next) > S.MinFee+2 {
					plain = u
				}
			}
			if own != nil && sc.value(own.u, next) > S.MinFee+2 {
				v := sc.value(own.u, next)
				return mk([]node.Spend{{TxId: own.u.TransactionId(), Index: own.u.OutputIndex(), By: own.owner}},
					[]node.RawOutput{{Address: wl.Address, IsYielding: true, Value: v - S.MinFee}}, ts), kind
			}
			hasIncome := false
			for _, u := range conf {
				if u.owner == wl && u.u.IsYielding() {
					hasIncome = true
				}
			}
			if !hasIncome && plain != nil {
				v := sc.value(plain.u, next)
				return mk([]node.Spend{{TxId: plain.u.TransactionId(), Index: plain.u.OutputIndex(), By: plain.owner}},
					[]node.RawOutput{{Address: wl.Address, IsYielding: true, Value: (v - S.MinFee) / 2}, {Address: plain.owner.Address, Value: v - S.MinFee - (v-S.MinFee)/2}}, ts), kind
			}
		}
		return nil, ""
	case "yield-swap":
		// order-dependent pair: A releases an address's only yielding output, B (pooled later) gives that address a
		// new yielding output: B is admissible only after A, so a shuffle that tries B first must drop it
		for _, t := range n.Pool.Transactions() {
			for _, in := range t.Inputs() {
				for _, c := range conf {
					if c.u.TransactionId() == in.TransactionId() && c.u.OutputIndex() == in.OutputIndex() && c.u.IsYielding() {
						var rest []utxoRef
						for _, u := range usable {
							if !u.u.IsYielding() {
								rest = append(rest, u)
							}
						}
						if len(rest) == 0 {
							return nil, ""
						}
						u := pick(r, rest)
						v := sc.value(u.u, next)
						if v <= S.MinFee+1 {
							return nil, ""
						}
						return mk([]node.Spend{{TxId: u.u.TransactionId(), Index: u.u.OutputIndex(), By: u.owner}},
							[]node.RawOutput{{Address: c.owner.Address, IsYielding: true, Value: (v - S.MinFee) / 2}, {Address: u.owner.Address, Value: v - S.MinFee - (v-S.MinFee)/2}}, ts), "yield-swap-B"
					}
				}
			}
		}
		for _, u := range usable {
			if u.u.IsYielding() {
				v := sc.value(u.u, next)
				if v <= S.MinFee+2 {
					continue
				}
				// keep part of the value in a plain output of another wallet so that B has something to spend later
				return mk([]node.Spend{{TxId: u.u.TransactionId(), Index: u.u.OutputIndex(), By: u.owner}},
					[]node.RawOutput{{Address: other().Address, Value: (v - S.MinFee) / 2}, {Address: u.owner.Address, Value: v - S.MinFee - (v-S.MinFee)/2}}, ts), "yield-swap-A"
			}
		}
		return nil, ""
	case "same-input-twice":
		pickSome(1)
		spends = append(spends, spends[0])
		return mk(spends, outs(inV, S.MinFee, ""), ts), kind
	case "same-input-twice-rich": // pays out what the output would be worth if it counted once per listing
		pickSome(1)
		spends = append(spends, spends[0])
		return mk(spends, outs(2*inV, S.MinFee, ""), ts), kind
	case "spend-pooled", "spend-last-block":
		var src []*ledger.Transaction
		if kind == "spend-pooled" {
			src = n.Pool.Transactions()
		} else {
			src = n.Chain.LastBlockTransactions()
		}
		for _, t := range src {
			for j, o := range t.Outputs() {
				if w := sc.walletOf(o.Address()); w != nil && o.InitialValue() > S.MinFee {
					return mk([]node.Spend{{TxId: t.Id(), Index: uint16(j), By: w}},
						[]node.RawOutput{{Address: other().Address, Value: o.InitialValue() - S.MinFee}}, ts), kind
				}
			}
		}
		return nil, ""
	case "zero-output":
		pickSome(1)
		o := outs(inV, S.MinFee, "")
		o = append(o, node.RawOutput{Address: other().Address, Value: 0})
		return mk(spends, o, ts), kind
	case "zero-first-outputs": // an EMPTY output first, then outputs of two different wallets
		pickSome(1)
		if inV < S.MinFee+4 {
			return nil, ""
		}
		w1 := other()
		var w2 *node.Wallet
		for _, c := range sc.w.Wallets {
			if c != w1 {
				w2 = c
				break
			}
		}
		if w2 == nil {
			return nil, ""
		}
		rem := inV - S.MinFee
		return mk(spends, []node.RawOutput{{Address: other().Address, Value: 0}, {Address: w1.Address, Value: rem / 2}, {Address: w2.Address, Value: rem - rem/2}}, ts), kind
	case "shifted-owner": // output k of a transaction holding an empty output at or below k, spent with the key (and the valid
		// signature) of the owner of output k+1
		for _, u := range usable {
			k := int(u.u.OutputIndex())
			var src *ledger.Transaction
			for _, b := range n.AllBlocks() {
				for _, t := range b.Transactions() {
					if t.Id() == u.u.TransactionId() {
						src = t
					}
				}
			}
			if src == nil || k+1 >= len(src.Outputs()) {
				continue
			}
			empty := false
			for i := 0; i <= k; i++ {
				if o := src.Outputs()[i]; o.InitialValue() == 0 && !o.IsYielding() {
					empty = true
				}
			}
			thief := sc.walletOf(src.Outputs()[k+1].Address())
			if !empty || thief == nil || thief == u.owner {
				continue
			}
			v := sc.value(u.u, next)
			if v <= S.MinFee {
				continue
			}
			raw := &node.RawTx{Timestamp: ts, Outputs: []node.RawOutput{{Address: thief.Address, Value: v - S.MinFee}}}
			raw.Inputs = []node.RawInput{{OutputIndex: u.u.OutputIndex(), TransactionId: u.u.TransactionId(), PublicKey: thief.PubHex,
				Signature: thief.Sign(u.u.OutputIndex(), u.u.TransactionId())}}
			tx, err := raw.Seal()
			if err != nil {
				return nil, ""
			}
			return tx, kind
		}
		return nil, ""
	case "many-outputs":
		pickSome(1)
		if inV < S.MinFee+12 {
			return nil, ""
		}
		var o []node.RawOutput
		rem := inV - S.MinFee
		for i := 0; i < 12; i++ {
			o = append(o, node.RawOutput{Address: other().Address, Value: rem / 12})
		}
		return mk(spends, o, ts), kind
	}
	return nil, ""
}

func (sc *scenario) findUtxoAnywhere(n *node.Node, id string, idx uint16) utxoRef {
	for _, b := range n.AllBlocks() {
		for _, t := range b.Transactions() {
			if t.Id() == id && int(idx) < len(t.Outputs()) {
				return utxoRef{nil, sc.walletOf(t.Outputs()[idx].Address())}
			}
		}
	}
	return utxoRef{}
}

// ---------------------------------------------------------------- adversarial chains

var breakKinds = []string{"bad-ts", "no-reward", "two-rewards", "reward-plus1", "bad-sig-tx", "unknown-input", "double-spend", "tx-future",
	"tx-old", "low-fee", "ok-fee", "yield-unregistered", "yield-listed", "unlinked", "removed-listed", "steal", "huge-output", "replay-tx", "yield-listed-then-unregistered"}

// mutate returns base[0..h) + a block at height h broken in exactly one way + `fill` reward-only blocks.
func (sc *scenario) mutate(n *node.Node, base []*ledger.Block, h int, kind string, fill int) []*ledger.Block {
	if h < 1 || h >= len(base) {
		return nil
	}
	r := sc.rng
	S := sc.w.S
	var raws []*node.RawBlock
	for i := 0; i <= h; i++ {
		rb, err := node.FromBlock(base[i])
		if err != nil {
			return nil
		}
		raws = append(raws, rb)
	}
	blk := raws[h]
	adv := pick(r, sc.w.Wallets)
	// outputs spendable at height h by the lagging verifier: created in blocks <= h-2 and unspent up to h-1
	spendable := sc.spendableAt(base, h)
	addTx := func(mut func(raw *node.RawTx, u spendRef)) bool {
		if len(spendable) == 0 {
			return false
		}
		u := pick(r, spendable)
		val := u.value(sc, blk.Timestamp)
		if val <= S.MinFee {
			return false
		}
		raw := &node.RawTx{Timestamp: base[h-1].Timestamp() + r.Int63n(S.Interval+1),
			Inputs:  []node.RawInput{{OutputIndex: u.idx, TransactionId: u.id, PublicKey: u.owner.PubHex, Signature: u.owner.Sign(u.idx, u.id)}},
			Outputs: []node.RawOutput{{Address: adv.Address, Value: val - S.MinFee}}}
		mut(raw, u)
		id, err := raw.ComputeId()
		if err != nil {
			return false
		}
		raw.Id = id
		txs := blk.Txs()
		blk.SetTxs(append([]*node.RawTx{raw}, txs...)...)
		return true
	}
	switch kind {
	case "bad-ts":
		blk.Timestamp += pick(r, []int64{1, -1, S.Interval})
	case "no-reward":
		var keep []*node.RawTx
		for _, t := range blk.Txs() {
			if len(t.Inputs) != 0 {
				keep = append(keep, t)
			}
		}
		blk.SetTxs(keep...)
	case "two-rewards":
		blk.AddTx(node.RewardRaw(adv.Address, false, blk.Timestamp+1, 0))
	case "reward-plus1":
		txs := blk.Txs()
		for i, t := range txs {
			if len(t.Inputs) == 0 {
				txs[i] = node.RewardRaw(t.Outputs[0].Address, t.Outputs[0].IsYielding, t.Timestamp, t.Outputs[0].Value+1)
			}
		}
		blk.SetTxs(txs...)
	case "bad-sig-tx":
		if !addTx(func(raw *node.RawTx, u spendRef) { raw.Inputs[0].Signature = adv.Sign(u.idx, u.id+"x") }) {
			return nil
		}
	case "steal": // key and valid signature of a non-owner
		if !addTx(func(raw *node.RawTx, u spendRef) {
			o := pick(r, sc.w.Wallets)
			raw.Inputs[0].PublicKey = o.PubHex
			raw.Inputs[0].Signature = o.Sign(u.idx, u.id)
		}) {
			return nil
		}
	case "unknown-input":
		if !addTx(func(raw *node.RawTx, u spendRef) {
			raw.Inputs[0].TransactionId = node.Sha256Hex([]byte(u.id))
			raw.Inputs[0].Signature = u.owner.Sign(u.idx, raw.Inputs[0].TransactionId)
		}) {
			return nil
		}
	case "double-spend":
		if !addTx(func(raw *node.RawTx, u spendRef) {}) {
			return nil
		}
		txs := blk.Txs()
		dup := *txs[0]
		dup.Timestamp = txs[0].Timestamp
		dup.Outputs = []node.RawOutput{{Address: adv.Address, Value: txs[0].Outputs[0].Value - 1}, {Address: adv.Address, Value: 0}}
		id, _ := dup.ComputeId()
		dup.Id = id
		blk.SetTxs(append([]*node.RawTx{&dup}, txs...)...)
	case "tx-future":
		if !addTx(func(raw *node.RawTx, u spendRef) { raw.Timestamp = blk.Timestamp + 1 }) {
			return nil
		}
	case "tx-old":
		if !addTx(func(raw *node.RawTx, u spendRef) { raw.Timestamp = base[h-1].Timestamp() - 1 }) {
			return nil
		}
	case "low-fee":
		if !addTx(func(raw *node.RawTx, u spendRef) { raw.Outputs[0].Value += 1 }) {
			return nil
		}
	case "huge-output": // outputs just below 2^64 against a small input
		if !addTx(func(raw *node.RawTx, u spendRef) {
			raw.Outputs[0].Value = pick(r, []uint64{^uint64(0), ^uint64(0) - S.MinFee + 1, ^uint64(0) - S.MinFee})
		}) {
			return nil
		}
	case "replay-tx": // a valid transaction dated exactly as the block (the one date both windows accept), included
		// again by the NEXT block
		if !addTx(func(raw *node.RawTx, u spendRef) { raw.Timestamp = blk.Timestamp }) {
			return nil
		}
		if fill < 1 {
			fill = 1
		}
	case "ok-fee": // a VALID extra transaction: the chain may legitimately be adopted
		if !addTx(func(raw *node.RawTx, u spendRef) {}) {
			return nil
		}
	case "yield-unregistered":
		if !addTx(func(raw *node.RawTx, u spendRef) {
			raw.Outputs[0].IsYielding = true
			raw.Outputs[0].Address = "0xUnregistered" + fmt.Sprint(r.Intn(3))
		}) {
			return nil
		}
	case "yield-listed": // valid: yielding output to a new address listed as added
		ok := addTx(func(raw *node.RawTx, u spendRef) {
			raw.Outputs[0].IsYielding = true
			raw.Outputs[0].Address = "0xListed" + fmt.Sprint(r.Intn(3))
		})
		if !ok {
			return nil
		}
		blk.Added = append(blk.Added, blk.Txs()[0].Outputs[0].Address)
	case "yield-listed-then-unregistered": // one transaction, two yielding outputs: the first to an address the block lists,
		// the second to an address that is neither listed nor registered
		ok := addTx(func(raw *node.RawTx, u spendRef) {
			v := raw.Outputs[0].Value
			raw.Outputs = []node.RawOutput{{Address: "0xListed" + fmt.Sprint(r.Intn(3)), IsYielding: true, Value: v / 2},
				{Address: "0xUnregistered" + fmt.Sprint(r.Intn(3)), IsYielding: true, Value: v - v/2}}
		})
		if !ok {
			return nil
		}
		blk.Added = append(blk.Added, blk.Txs()[0].Outputs[0].Address)
	case "removed-listed": // lists registered addresses as removed (any block may)
		blk.Removed = append(blk.Removed, base[0].Transactions()[0].Outputs()[0].Address())
	case "unlinked":
		// handled after relinking
	default:
		return nil
	}
	// filler reward-only blocks
	ts := blk.Timestamp
	for i := 0; i < fill; i++ {
		ts += S.Interval
		fb := &node.RawBlock{Timestamp: ts}
		if kind == "replay-tx" && i == 0 {
			fb.SetTxs(blk.Txs()[0], node.RewardRaw(adv.Address, false, ts, 0))
		} else {
			fb.SetTxs(node.RewardRaw(adv.Address, false, ts, 0))
		}
		raws = append(raws, fb)
	}
	chain, err := node.Relink(raws)
	if err != nil {
		return nil
	}
	if kind == "unlinked" {
		raws[h].PreviousHash = [32]byte{1, 2, 3}
		b, err := raws[h].Decode()
		if err != nil {
			return nil
		}
		chain[h] = b // successors keep the hash of the original block h: only the link INTO h is broken
		if h+1 < len(raws) {
			rest, err := node.Relink(raws[h:])
			if err != nil {
				return nil
			}
			copy(chain[h:], rest)
		}
	}
	return chain
}

// splice: base with the block at a height s (0 < s < tip) replaced by a competitor (same content, the reward paid to
// another wallet), the blocks above s kept as they are, and one more valid reward-only block on top
func (sc *scenario) splice(base []*ledger.Block) []*ledger.Block {
	r := sc.rng
	S := sc.w.S
	s := 1 + r.Intn(len(base)-2)
	rb, err := node.FromBlock(base[s])
	if err != nil {
		return nil
	}
	adv := pick(r, sc.w.Wallets)
	var txs []*node.RawTx
	changed := false
	for _, t := range rb.Txs() {
		if len(t.Inputs) == 0 && len(t.Outputs) == 1 && t.Outputs[0].Address != adv.Address {
			t = node.RewardRaw(adv.Address, t.Outputs[0].IsYielding, t.Timestamp, t.Outputs[0].Value)
			changed = true
		}
		txs = append(txs, t)
	}
	if !changed {
		return nil
	}
	rb.SetTxs(txs...)
	comp, err := rb.Decode() // previous hash unchanged: links to base[s-1]
	if err != nil {
		return nil
	}
	tipRaw, err := node.FromBlock(base[len(base)-1])
	if err != nil {
		return nil
	}
	ts := base[len(base)-1].Timestamp() + S.Interval
	nb := &node.RawBlock{Timestamp: ts}
	nb.SetTxs(node.RewardRaw(adv.Address, false, ts, 0))
	top, err := node.Relink([]*node.RawBlock{tipRaw, nb})
	if err != nil {
		return nil
	}
	res := append([]*ledger.Block{}, base[:s]...)
	res = append(res, comp)
	res = append(res, base[s+1:]...)
	return append(res, top[1])
}

type spendRef struct {
	id      string
	idx     uint16
	out     *ledger.Output
	created int64
	owner   *node.Wallet
}

func (s spendRef) value(sc *scenario, at int64) uint64 {
	u := ledger.NewUtxo(ledger.NewInputInfo(s.idx, s.id), s.out, s.created)
	return u.Value(at, sc.w.S.HalfLife, sc.w.S.Base, sc.w.S.Limit)
}

// spendableAt lists outputs created in blocks <= h-2 of base and not consumed by blocks <= h-1.
func (sc *scenario) spendableAt(base []*ledger.Block, h int) []spendRef {
	live := map[string]spendRef{}
	key := func(id string, i uint16) string { return fmt.Sprintf("%s:%d", id, i) }
	for i := 0; i <= h-2 && i < len(base); i++ {
		for _, t := range base[i].Transactions() {
			for j, o := range t.Outputs() {
				if w := sc.walletOf(o.Address()); w != nil {
					live[key(t.Id(), uint16(j))] = spendRef{t.Id(), uint16(j), o, base[i].Timestamp(), w}
				}
			}
		}
	}
	for i := 0; i <= h-1 && i < len(base); i++ {
		for _, t := range base[i].Transactions() {
			for _, in := range t.Inputs() {
				delete(live, key(in.TransactionId(), in.OutputIndex()))
			}
		}
	}
	keys := make([]string, 0, len(live))
	for k := range live {
		keys = append(keys, k)
	}
	sort.Strings(keys)
	var res []spendRef
	for _, k := range keys {
		res = append(res, live[k])
	}
	return res
}

// ---------------------------------------------------------------- neighbours

func (sc *scenario) genNeighbours(n *node.Node, now int64) []trace.Neighbour {
	r := sc.rng
	var res []trace.Neighbour
	k := 1 + r.Intn(3)
	if r.Intn(6) == 0 {
		k = 4 + r.Intn(5)
	}
	for i := 0; i < k; i++ {
		target := fmt.Sprintf("peer%d", i)
		roll := r.Intn(100)
		var others []*node.Node
		for _, o := range sc.w.Nodes {
			if o != n && len(o.AllBlocks()) > 0 {
				others = append(others, o)
			}
		}
		switch {
		case roll < 4 && len(n.AllBlocks()) >= 4 && uint64(len(n.AllBlocks())) < sc.w.S.BlocksLimit:
			// a SPLICED chain served to the whole-chain fallback only (the incremental request fails): the host's own
			// chain with one block below the tip replaced by a valid competitor of that height — the host's blocks above
			// it are re-used unchanged and still point to the replaced block — plus a valid new tip
			if ch := sc.splice(n.AllBlocks()); ch != nil {
				page := sc.w.S.BlocksLimit
				res = append(res, trace.Neighbour{Target: target, Kind: "splice", Answer: func(h uint64, _ int) ([]byte, error) {
					if h > 0 {
						return nil, fmt.Errorf("down")
					}
					return json.Marshal(trace.PageOf(ch, 0, page))
				}})
				continue
			}
			fallthrough
		case roll < 40 && len(others) > 0:
			if len(others) == 0 {
				continue
			}
			p := pick(r, others)
			nb := trace.Honest(p)
			nb.Target = target
			res = append(res, nb)
		case roll < 46:
			res = append(res, trace.Neighbour{Target: target, Kind: "error", Answer: func(uint64, int) ([]byte, error) { return nil, fmt.Errorf("down") }})
		case roll < 52:
			g := pick(r, []string{"xx", "", "{}", "[1,2]", "[null]", `[{"timestamp":"x"}]`, "null", "[]"})
			res = append(res, trace.Neighbour{Target: target, Kind: "garbage", Answer: func(uint64, int) ([]byte, error) { return []byte(g), nil }})
		case roll < 55 && roll >= 53:
			// dates across the int64 wrap-around: a first block just below 2^63 (never date-checked), the next ones one
			// interval later each in wrapped arithmetic (about -2^63: not zero, not after the round's time); one block
			// longer than the host's chain.  Refused since fix e06ad63 (the expected date overflows), and by the model
			// (no int64 date equals previous + interval computed exactly)
			adv := sc.w.Wallets[len(sc.w.Wallets)-1]
			S := sc.w.S
			const maxI64 = int64(^uint64(0) >> 1)
			ts := maxI64 - S.Interval/2
			var raws []*node.RawBlock
			for j := 0; j <= len(n.AllBlocks()) && j < 6; j++ {
				rb := &node.RawBlock{Timestamp: ts}
				if j == 0 {
					rb.SetTxs(node.RewardRaw(adv.Address, true, ts, S.Genesis))
					rb.Added = []string{adv.Address}
				} else {
					rb.SetTxs(node.RewardRaw(adv.Address, false, ts, 0))
				}
				raws = append(raws, rb)
				ts += S.Interval // wraps after the first block
			}
			if ch, err := node.Relink(raws); err == nil && len(ch) >= 2 {
				sc.w.Hist["neighbour:wrapped-dates"]++
				res = append(res, trace.Serving(target, "wrapped-dates", ch, sc.w.S.BlocksLimit))
				continue
			}
			res = append(res, trace.Neighbour{Target: target, Kind: "error", Answer: func(uint64, int) ([]byte, error) { return nil, fmt.Errorf("down") }})
		case roll < 53: // rare here (each costs the 1.5 s real-time timeout); silence is the subject of profile faults
			res = append(res, trace.Neighbour{Target: target, Kind: "silent", Silent: true})
		default:
			// a chain derived from some node's chain (own included): truncated / stale / broken at h / flip-flop
			srcs := append([]*node.Node{}, others...)
			if len(n.AllBlocks()) > 0 {
				srcs = append(srcs, n)
			}
			if len(srcs) == 0 {
				continue
			}
			base := pick(r, srcs).AllBlocks()
			page := sc.w.S.BlocksLimit
			sub := r.Intn(100)
			switch {
			case sub < 12 && len(base) > 1:
				cut := 1 + r.Intn(len(base)-1)
				res = append(res, trace.Serving(target, "truncated", base[:cut], page))
			case sub < 20 && len(base) >= 2:
				// flip-flop: honest answer to the first request, something else to the second
				alt := base[:1+r.Intn(len(base)-1)]
				res = append(res, trace.Neighbour{Target: target, Kind: "flipflop", Answer: func(h uint64, call int) ([]byte, error) {
					if call == 0 {
						return json.Marshal(trace.PageOf(base, h, page))
					}
					return json.Marshal(trace.PageOf(alt, h, page))
				}})
			default:
				if len(base) < 2 {
					continue
				}
				h := 1 + r.Intn(len(base)-1)
				if r.Intn(2) == 0 {
					h = len(base) - 1 // most interesting: competitor to the tip / extension
				}
				kind := sc.breakKind()
				fill := r.Intn(3)
				if r.Intn(3) == 0 {
					fill = len(base) - h + r.Intn(2)
				}
				ch := sc.mutate(n, base, h, kind, fill)
				if ch == nil {
					continue
				}
				res = append(res, trace.Serving(target, "break:"+kind, ch, page))
			}
		}
	}
	return res
}

// ---------------------------------------------------------------- scenario body

// conflictSwap: two nodes sharing a chain each receive one of two transactions spending the same output,
// both produce, then one adopts the other's tip AFTER having admitted its own transaction, then produces.
func (sc *scenario) conflictSwap(a, b *node.Node) {
	w := sc.w
	S := w.S
	usable := sc.confirmed(a)
	if len(usable) == 0 {
		return
	}
	u := pick(sc.rng, usable)
	last := a.Chain.LastBlockTimestamp()
	v := sc.value(u.u, last+2*S.Interval)
	if v <= S.MinFee+10 {
		return
	}
	sp := []node.Spend{{TxId: u.u.TransactionId(), Index: u.u.OutputIndex(), By: u.owner}}
	t1, _, err1 := node.MakeTx(sp, []node.RawOutput{{Address: pick(sc.rng, w.Wallets).Address, Value: v - S.MinFee - 1}}, last)
	t2, _, err2 := node.MakeTx(sp, []node.RawOutput{{Address: pick(sc.rng, w.Wallets).Address, Value: v - S.MinFee - 2}}, last+S.Interval)
	if err1 != nil || err2 != nil {
		return
	}
	w.Submit(b, t1)
	sc.clock = last + S.Interval
	w.Tick(b, sc.clock)
	w.Tick(a, sc.clock)
	if v := w.Submit(a, t2); v.Info["submit"] == "admitted" {
		sc.mark("admitted")
	}
	w.Sync(a, sc.clock, []trace.Neighbour{trace.Honest(b)})
	sc.clock += S.Interval
	if v := w.Tick(a, sc.clock); v.Info["tick"] == "produced" {
		sc.mark("block-with-tx")
	}
	w.Sync(b, sc.clock, []trace.Neighbour{trace.Honest(a)})
}

func (sc *scenario) run(maxOps int) {
	r := sc.rng
	w := sc.w
	S := w.S
	sc.clock = T0
	// node 0 starts the chain
	w.Tick(w.Nodes[0], sc.clock)
	if len(w.Nodes) > 1 && r.Intn(2) == 0 {
		// shared start: the others take node 0's chain
		sc.clock += S.Interval
		w.Tick(w.Nodes[0], sc.clock)
		sc.clock += S.Interval
		w.Tick(w.Nodes[0], sc.clock)
		for _, f := range w.Nodes[1:] {
			w.Tick(f, T0)
			sc.catchUp(f, w.Nodes[0], sc.clock, 3)
		}
	}
	for step := 0; step < maxOps && w.Continue(); step++ {
		n := pick(r, w.Nodes)
		roll := r.Intn(100)
		if sc.profile == "alias" && r.Intn(4) == 0 {
			roll = 80 + r.Intn(8) // more registry refreshes
		}
		if len(w.Nodes) > 1 && r.Intn(12) == 0 {
			o := pick(r, w.Nodes)
			if o != n && len(n.AllBlocks()) > 1 && sameChain(n, o) {
				sc.conflictSwap(n, o)
				continue
			}
		}
		switch {
		case roll < 22: // advance the clock and produce on the leader (or this node)
			sc.clock += S.Interval
			p := n
			if r.Intn(3) > 0 {
				p = w.Nodes[0]
			}
			if len(p.AllBlocks()) == 0 && p != w.Nodes[0] {
				w.Tick(p, sc.clock)
				continue
			}
			ts := sc.clock
			if last := p.Chain.LastBlockTimestamp(); ts < last {
				ts = last + S.Interval // a clock never runs backwards (C20); ticks before the tip are exercised by profile offgrid only
			}
			v := w.Tick(p, ts)
			if v.Info["tick"] == "produced" && v.Info["included"] != "0" && v.Info["included"] != "" {
				sc.mark("block-with-tx")
			}
		case roll < 28: // irregular ticks
			last := n.Chain.LastBlockTimestamp()
			// repeated, skipped, on time, skipped twice, and LATE (aligned, behind a tip adopted from a peer or produced
			// ahead of this tick): all inside C04's "aligned ticks"
			ts := pick(r, []int64{last, last + 2*S.Interval, last + S.Interval, last + 3*S.Interval, last - S.Interval, last - 2*S.Interval})
			if sc.profile == "offgrid" { // outside C04's quantifier (aligned ticks): model conformance only
				ts = pick(r, []int64{last + S.Interval/2, last - S.Interval, last + 1, last + S.Interval - 1})
			}
			if len(n.AllBlocks()) == 0 {
				ts = sc.clock
			}
			w.Tick(n, ts)
		case roll < 55: // submissions
			if len(n.AllBlocks()) == 0 {
				continue
			}
			kind := sc.txKind()
			tx, k := sc.makeTx(n, kind)
			if tx == nil {
				continue
			}
			v := w.Submit(n, tx)
			w.Hist["tx:"+k+"→"+v.Info["submit"]]++
			if v.Info["submit"] == "admitted" {
				sc.mark("admitted")
				if k == "zero-yield-rest" {
					if sc.zeroYieldSiblings == nil {
						sc.zeroYieldSiblings = map[string]bool{}
					}
					sc.zeroYieldSiblings[tx.Id()] = true
					if r.Intn(2) == 0 {
						// confirm it (two on-schedule ticks), let the recipient spend the amount, confirm that too, then read
						for q := 0; q < 2; q++ {
							w.Tick(n, n.Chain.LastBlockTimestamp()+S.Interval)
						}
						if t2, k2 := sc.makeTx(n, "valid"); t2 != nil {
							v2 := w.Submit(n, t2)
							w.Hist["tx:"+k2+"(after zero-yield-rest)→"+v2.Info["submit"]]++
							for q := 0; q < 2; q++ {
								w.Tick(n, n.Chain.LastBlockTimestamp()+S.Interval)
							}
						}
					}
				}
				if k == "zero-first-outputs" && r.Intn(2) == 0 {
					// confirm it (two on-schedule ticks), then the owner of output k+1 tries to spend output k
					for q := 0; q < 2; q++ {
						w.Tick(n, n.Chain.LastBlockTimestamp()+S.Interval)
					}
					if ts2, k2 := sc.makeTx(n, "shifted-owner"); ts2 != nil {
						v2 := w.Submit(n, ts2)
						w.Hist["tx:"+k2+"→"+v2.Info["submit"]]++
					}
				}
				if k == "yield-swap-A" { // follow with the dependent transaction B straight away
					if tb, kb := sc.makeTx(n, "yield-swap"); tb != nil && kb == "yield-swap-B" {
						vb := w.Submit(n, tb)
						w.Hist["tx:"+kb+"→"+vb.Info["submit"]]++
						// … and an unrelated valid transaction, then the on-schedule tick: whatever the shuffle makes of the
						// three (B tried before A is refused at its turn), the unrelated one belongs in the block
						if vb.Info["submit"] == "admitted" {
							if tc, kc := sc.makeTx(n, "valid"); tc != nil {
								vc := w.Submit(n, tc)
								w.Hist["tx:"+kc+"→"+vc.Info["submit"]]++
							}
							w.Tick(n, n.Chain.LastBlockTimestamp()+S.Interval)
						}
					}
				}
			}
		case roll < 80: // sync
			if len(n.AllBlocks()) == 0 {
				w.Tick(n, sc.clock) // private first block
				continue
			}
			now := sc.clock
			if r.Intn(8) == 0 {
				now -= S.Interval // some candidates are then in the future
			}
			nb := sc.genNeighbours(n, now)
			var v *trace.Verdict
			if r.Intn(5) == 0 && sc.profile != "offgrid" {
				// the node's own tick runs to completion while the round waits for its first answer
				last := n.Chain.LastBlockTimestamp()
				v, _ = w.SyncTick(n, now, nb, pick(r, []int64{last + S.Interval, last + S.Interval, last + S.Interval, last, last + 2*S.Interval}))
			} else if r.Intn(6) == 0 && sc.profile != "offgrid" {
				// a submission admitted while the round waits for its first answer
				if tx, k := sc.makeTx(n, pick(r, []string{"valid", "valid", "yield-new", "double-spend", "spend-last-block"})); tx != nil {
					v, _ = w.SyncSubmit(n, now, nb, tx)
					w.Hist["tx-in-round:"+k+"→"+v.Info["submit"]]++
					if v.Info["submit"] == "admitted" {
						sc.mark("admitted")
					}
				} else {
					v, _ = w.Sync(n, now, nb)
				}
			} else {
				v, _ = w.Sync(n, now, nb)
			}
			m := v.Info["sync"]
			if m == "extension" || m == "resync" || m == "tipswap" {
				sc.mark("adopted")
			}
		case roll < 88: // registry refresh
			var invalid, failing []string
			for _, wl := range w.Wallets {
				if r.Intn(4) == 0 {
					invalid = append(invalid, wl.Address)
				} else if r.Intn(10) == 0 {
					failing = append(failing, wl.Address)
				}
			}
			if r.Intn(3) == 0 {
				invalid = append(invalid, "0xListed0", "0xListed1", "0xListed2")
			}
			w.RegSync(n, invalid, failing)
			if (sc.profile == "income" || sc.profile == "alias") && len(n.Reg.VerifPendingRemovals()) > 0 && r.Intn(2) == 0 && len(n.AllBlocks()) > 0 {
				// the pending addresses go into the next block's removed list; the block after that confirms the removal
				// — and may at the same time give one of them a yielding output again, which it must then list as added
				w.Tick(n, n.Chain.LastBlockTimestamp()+S.Interval)
				if tp, kp := sc.makeTx(n, "yield-pending"); tp != nil {
					vp := w.Submit(n, tp)
					w.Hist["tx:"+kp+"→"+vp.Info["submit"]]++
				}
				w.Tick(n, n.Chain.LastBlockTimestamp()+S.Interval)
				w.Tick(n, n.Chain.LastBlockTimestamp()+S.Interval)
			}
		default:
			l := uint64(len(n.AllBlocks()))
			if r.Intn(6) == 0 {
				// heights far beyond the tip, up to the largest uint64 (where h+1 and h+limit wrap)
				w.Read(n, pick(r, []uint64{^uint64(0), ^uint64(0) - 1, 1 << 63, 1<<63 - 1, 1 << 32, l + 1000}))
			} else {
				w.Read(n, uint64(r.Int63n(int64(l)+3)))
			}
		}
	}
}

func (sc *scenario) propFail(text string, op string) {
	sc.w.Failures = append(sc.w.Failures, trace.Failure{Kind: "prop", Text: text, Line: len(sc.w.Lines) - 1, OpKind: op})
}

func sameChain(a, b *node.Node) bool {
	x, y := a.AllBlocks(), b.AllBlocks()
	if len(x) != len(y) {
		return false
	}
	for i := range x {
		if node.HashHex(x[i]) != node.HashHex(y[i]) {
			return false
		}
	}
	return true
}

func sameDerived(a, b *node.Node) string {
	oa, _, _ := a.Observe()
	ob, _, _ := b.Observe()
	ja, _ := json.Marshal([]interface{}{oa.ById, oa.ByAddr, oa.Registered})
	jb, _ := json.Marshal([]interface{}{ob.ById, ob.ByAddr, ob.Registered})
	if string(ja) != string(jb) {
		return "derived state differs"
	}
	return ""
}

var rejectionClasses = map[string]bool{"bad-prev-hash": true, "bad-block-ts": true, "future-block": true, "multi-reward": true, "tx-future": true,
	"tx-old": true, "yield-unregistered": true, "no-reward": true, "reward-exceeds": true, "no-tx-id": true, "no-output-index": true,
	"wrong-owner": true, "fee-negative": true, "fee-low": true, "overflow": true, "id-exists": true, "multi-income": true, "bad-signature": true,
	"add-utxo-failed": true, "too-short": true, "fork": true}

// catch-up rounds of follower f against server a; returns rounds used
func (sc *scenario) catchUp(f, a *node.Node, now int64, maxRounds int) int {
	return sc.catchUpN(f, a, now, maxRounds, 0)
}

// catchUpN: like catchUp with `distinct` honest neighbours under distinct targets, all holding a's chain
// (distinct = 0: the historical shape, two senders under one target)
func (sc *scenario) catchUpN(f, a *node.Node, now int64, maxRounds int, distinct int) int {
	for k := 1; k <= maxRounds; k++ {
		nb := []trace.Neighbour{trace.Honest(a), trace.Honest(a)}
		if distinct > 0 {
			nb = nil
			for j := 0; j < distinct; j++ {
				h := trace.Honest(a)
				h.Target = fmt.Sprintf("%s-peer%d", a.Name, j)
				nb = append(nb, h)
			}
		}
		sc.w.Sync(f, now, nb)
		if sameChain(f, a) {
			return k
		}
	}
	return maxRounds + 1
}

func ceilDiv(a, b int) int { return (a + b - 1) / b }

// profile "agree" (C05): every block the leader produces is offered to honest peers in the three
// delivery contexts: extension of the tip, competitor to the peer's own tip, full re-sync.
func (sc *scenario) runAgree(maxOps int) {
	r := sc.rng
	w := sc.w
	S := w.S
	a, f := w.Nodes[0], w.Nodes[1]
	spare := 2
	sc.clock = T0
	w.Tick(a, sc.clock)
	sc.clock += S.Interval
	w.Tick(a, sc.clock)
	w.Tick(f, T0) // private first block, then adopt the leader's chain
	sc.catchUp(f, a, sc.clock, 3)
	bound := func() int { return 2 + ceilDiv(len(a.AllBlocks()), int(S.BlocksLimit)-1) }
	var lapsed []string // addresses the oracle stopped vouching for (every node's refresh sees the same oracle)
	for step := 0; step < maxOps && w.Continue(); step++ {
		if r.Intn(4) == 0 && len(a.AllBlocks()) >= 2 {
			// the oracle drops some wallets BEFORE the submissions: the leader's next block lists them as removed and may
			// still pay them a yielding output (they stay registered until that block is confirmed)
			lapsed = nil
			for _, wl := range w.Wallets {
				if r.Intn(3) == 0 {
					lapsed = append(lapsed, wl.Address)
				}
			}
			w.RegSync(a, lapsed, nil)
			if tp, kp := sc.makeTx(a, "yield-pending"); tp != nil {
				vp := w.Submit(a, tp)
				w.Hist["tx:"+kp+"→"+vp.Info["submit"]]++
			}
		}
		// some submissions on the leader
		for k := r.Intn(4); k > 0; k-- {
			tx, kind := sc.makeTx(a, sc.txKind())
			if tx != nil {
				v := w.Submit(a, tx)
				w.Hist["tx:"+kind+"→"+v.Info["submit"]]++
				if v.Info["submit"] == "admitted" {
					sc.mark("admitted")
					if kind == "yield-swap-A" {
						if tb, kb := sc.makeTx(a, "yield-swap"); tb != nil && kb == "yield-swap-B" {
							vb := w.Submit(a, tb)
							w.Hist["tx:"+kb+"→"+vb.Info["submit"]]++
						}
					}
				}
			}
		}
		if r.Intn(4) == 0 {
			var invalid []string
			for _, wl := range w.Wallets {
				if r.Intn(3) == 0 {
					invalid = append(invalid, wl.Address)
				}
			}
			w.RegSync(a, invalid, nil)
		}
		prev := a.AllBlocks()
		sc.clock += S.Interval
		// competitor context: a fresh peer takes the leader's previous chain, produces its own block at the same time
		var g *node.Node
		if spare < len(w.Nodes) && len(prev) >= 2 && S.BlocksLimit >= 3 {
			g = w.Nodes[spare]
			spare++
			w.Tick(g, T0)
			if sc.catchUp(g, a, sc.clock-S.Interval, bound()) > bound() {
				g = nil // could not be set up (reported by C08's own check, not here)
			}
		}
		v := w.Tick(a, sc.clock)
		if v.Info["tick"] != "produced" {
			continue
		}
		if v.Info["included"] != "0" {
			sc.mark("block-with-tx")
		}
		// extension — now and then the peer has refreshed its registry against the same oracle (the lapsed addresses wait
		// in ITS pending list too) and a second neighbour still holds the peer's own chain (no all-forks fallback)
		extNb := []trace.Neighbour{trace.Honest(a)}
		if r.Intn(2) == 0 {
			if len(lapsed) > 0 {
				w.RegSync(f, lapsed, nil)
			}
			if len(prev) > 2 {
				extNb = append(extNb, trace.Serving("witness:1", "honest", prev, S.BlocksLimit))
				w.Hist["agree:extension-with-witness"]++
			}
		}
		w.Sync(f, sc.clock, extNb)
		if !sameChain(f, a) {
			sc.propFail(fmt.Sprintf("C05 extension: an honest peer holding the same chain did not adopt the produced block (height %d)", len(prev)), "sync")
			sc.mark("adopted")
			return
		}
		sc.mark("adopted")
		// competitor
		if g != nil {
			// the competitor's own block may register an address the leader's chain does not (a yielding payment
			// submitted to the competitor only)
			if r.Intn(2) == 0 {
				if ty, _ := sc.makeTx(g, "yield-new"); ty != nil {
					w.Submit(g, ty)
				}
			}
			w.Tick(g, sc.clock)
			// the leader verifies the competing tip as well — and keeps its own or adopts it, as fork choice decides;
			// whatever it verified and did not adopt must leave no trace in what it produces next
			if r.Intn(2) == 0 {
				w.Sync(a, sc.clock, []trace.Neighbour{trace.Honest(g)})
				if !sameChain(f, a) {
					sc.catchUp(f, a, sc.clock, bound())
				}
			}
			g.Log.Drain()
			vv, _ := w.Sync(g, sc.clock, []trace.Neighbour{trace.Honest(a)})
			_ = vv
			last := w.Lines[len(w.Lines)-1]
			var ln struct {
				Obs struct {
					Log []string `json:"log"`
				} `json:"obs"`
			}
			_ = json.Unmarshal(last, &ln)
			for _, c := range ln.Obs.Log {
				if rejectionClasses[c] {
					sc.propFail(fmt.Sprintf("C05 competitor: a peer holding the same chain plus its own tip rejected the honest block (height %d): %s", len(prev), c), "sync")
					return
				}
			}
		}
		// full re-sync, now and then
		if spare < len(w.Nodes) && r.Intn(3) == 0 && S.BlocksLimit >= 3 {
			p := w.Nodes[spare]
			spare++
			w.Tick(p, T0)
			if sc.catchUp(p, a, sc.clock, bound()) > bound() {
				sc.propFail(fmt.Sprintf("C05 resync: a fresh peer did not reach the honest chain (length %d) within %d rounds", len(prev)+1, bound()), "sync")
				return
			}
			if d := sameDerived(p, a); d != "" {
				sc.propFail("C08 after re-sync: "+d, "sync")
				return
			}
		}
	}
}

// profile "catchup" (C08): a follower that holds a prefix (or a short private chain) pages through the
// leader's chain; the number of rounds is checked against the bound, the state against the server's.
func (sc *scenario) runCatchup(maxOps int) {
	r := sc.rng
	w := sc.w
	S := w.S
	a := w.Nodes[0]
	sc.clock = T0
	w.Tick(a, sc.clock)
	spare := 1
	target := 2 + r.Intn(maxOps)
	for len(a.AllBlocks()) < target && w.Continue() {
		for k := r.Intn(3); k > 0; k-- {
			tx, _ := sc.makeTx(a, pick(r, []string{"valid", "valid", "consolidate", "yield-new", "fee-exact", "zero-output"}))
			if tx != nil {
				if w.Submit(a, tx).Info["submit"] == "admitted" {
					sc.mark("admitted")
				}
			}
		}
		if r.Intn(5) == 0 {
			// the oracle drops some wallets: the next block lists the registered ones as removed, and once that block is
			// confirmed the served chain goes on with EMPTY (not absent) removal lists
			var invalid []string
			for _, wl := range w.Wallets {
				if r.Intn(2) == 0 {
					invalid = append(invalid, wl.Address)
				}
			}
			w.RegSync(a, invalid, nil)
			w.Hist["catchup:leader-regsync"]++
		}
		sc.clock += S.Interval
		if v := w.Tick(a, sc.clock); v.Info["included"] != "0" && v.Info["included"] != "" {
			sc.mark("block-with-tx")
		}
		// start a follower at a random prefix: it syncs now, then again at the end
		if spare < len(w.Nodes) && r.Intn(5) == 0 && len(a.AllBlocks()) >= 2 {
			f := w.Nodes[spare]
			spare++
			w.Tick(f, T0)
			sc.catchUp(f, a, sc.clock, 2+ceilDiv(len(a.AllBlocks()), int(S.BlocksLimit)-1))
		}
	}
	c := len(a.AllBlocks())
	if c < 2 || S.BlocksLimit < 3 {
		return
	}
	// every started follower (prefix holders) and one private newcomer catch up
	for i := 1; i < len(w.Nodes) && w.Continue(); i++ {
		f := w.Nodes[i]
		distinct := 0
		if len(f.AllBlocks()) == 0 {
			if i > spare {
				break
			}
			// private chain shorter than C and than the page: every admissible length, 1 to 3 honest neighbours
			maxPriv := c - 1
			if int(S.BlocksLimit)-1 < maxPriv {
				maxPriv = int(S.BlocksLimit) - 1
			}
			priv := 1
			if maxPriv > 1 {
				priv = 1 + r.Intn(maxPriv)
			}
			for k := 0; k < priv; k++ {
				w.Tick(f, T0+int64(k)*S.Interval)
			}
			distinct = 1 + r.Intn(3)
			w.Hist[fmt.Sprintf("catchup:private=%d,neighbours=%d", priv, distinct)]++
		}
		bound := 1 + ceilDiv(c, int(S.BlocksLimit)-1)
		start := len(f.AllBlocks())
		rounds := sc.catchUpN(f, a, sc.clock, bound, distinct)
		if rounds > bound {
			sc.propFail(fmt.Sprintf("C08 not converged: follower starting at length %d, chain length %d, page %d, after %d rounds", start, c, S.BlocksLimit, bound), "sync")
			return
		}
		sc.mark("adopted")
		if d := sameDerived(f, a); d != "" {
			sc.propFail("C08 after catch-up: "+d, "sync")
			return
		}
		for h := 0; h <= c+2; h++ {
			w.Read(f, uint64(h))
		}
	}
}

// profile "fork" (C06), structured half: two or three lineages that diverge at a chosen height (0 = different first
// blocks) and grow to chosen lengths; the host is then offered, by 1 to 6 neighbours under distinct targets, whole
// lineages, valid PREFIXES of them (shorter candidates), its own chain, and a few faults — so that the host is longer /
// equal / shorter than the candidates, in the majority / in the minority / tied.  The oracle is the model's selection.
func (sc *scenario) runFork(maxOps int) {
	r := sc.rng
	w := sc.w
	S := w.S
	a, b, c := w.Nodes[0], w.Nodes[1], w.Nodes[2]
	sc.clock = T0
	w.Tick(a, sc.clock)
	grow := func(n *node.Node) {
		if r.Intn(3) == 0 && len(n.AllBlocks()) > 0 {
			if tx, _ := sc.makeTx(n, pick(r, []string{"valid", "valid", "yield-new", "consolidate"})); tx != nil {
				if w.Submit(n, tx).Info["submit"] == "admitted" {
					sc.mark("admitted")
				}
			}
		}
		if v := w.Tick(n, sc.clock); v.Info["included"] != "0" && v.Info["included"] != "" {
			sc.mark("block-with-tx")
		}
	}
	common := pick(r, []int{0, 0, 1, 2, 3, 5})
	for i := 0; i < common; i++ {
		sc.clock += S.Interval
		grow(a)
	}
	for _, f := range []*node.Node{b, c} {
		w.Tick(f, T0) // private first block (another validator): diverges at height 0 unless it catches up now
		if common > 0 {
			sc.catchUp(f, a, sc.clock, 2+ceilDiv(len(a.AllBlocks()), 2))
		}
	}
	la, lb, lc := r.Intn(6), r.Intn(6), r.Intn(4)
	for i := 0; i < 6; i++ {
		sc.clock += S.Interval
		if i < la {
			grow(a)
		}
		if i < lb {
			grow(b)
		}
		if i < lc {
			grow(c)
		}
	}
	nodes := []*node.Node{a, b, c}
	rounds := 2 + r.Intn(4)
	for round := 0; round < rounds && w.Continue(); round++ {
		host := pick(r, nodes)
		k := 1 + r.Intn(6)
		var nb []trace.Neighbour
		for j := 0; j < k; j++ {
			target := fmt.Sprintf("peer%d", j)
			src := pick(r, nodes)
			chain := src.AllBlocks()
			roll := r.Intn(100)
			switch {
			case roll < 40 && len(chain) >= 2: // a valid prefix (possibly shorter than the host's chain)
				m := 2 + r.Intn(len(chain)-1)
				nb = append(nb, trace.Serving(target, "prefix", chain[:m], S.BlocksLimit))
			case roll < 85 && len(chain) >= 1:
				nb = append(nb, trace.Serving(target, "lineage", chain, S.BlocksLimit))
			case roll < 92:
				nb = append(nb, trace.Neighbour{Target: target, Kind: "error", Answer: func(uint64, int) ([]byte, error) { return nil, fmt.Errorf("down") }})
			default:
				nb = append(nb, trace.Neighbour{Target: target, Kind: "garbage", Answer: func(uint64, int) ([]byte, error) { return []byte("[null]"), nil }})
			}
		}
		// often: make several neighbours agree on ONE other lineage (majority against the host)
		if r.Intn(2) == 0 {
			o := pick(r, nodes)
			if o != host && len(o.AllBlocks()) >= 2 {
				ch := o.AllBlocks()
				m := 2 + r.Intn(len(ch)-1)
				for j := range nb {
					if r.Intn(4) > 0 {
						nb[j] = trace.Serving(nb[j].Target, "bloc", ch[:m], S.BlocksLimit)
					}
				}
			}
		}
		// sometimes: an ODD number of neighbours, all but one on one lineage, one alone on another (the loner must not
		// outvote a branch shared by half of the candidates, the host's own chain counting as a candidate)
		if r.Intn(4) == 0 {
			var others []*node.Node
			for _, o := range nodes {
				if o != host && len(o.AllBlocks()) >= 2 {
					others = append(others, o)
				}
			}
			if len(others) == 2 {
				if r.Intn(2) == 0 {
					others[0], others[1] = others[1], others[0]
				}
				cnt := pick(r, []int{3, 3, 5})
				nb = nil
				for j := 0; j < cnt-1; j++ {
					nb = append(nb, trace.Serving(fmt.Sprintf("bloc%d", j), "bloc", others[0].AllBlocks(), S.BlocksLimit))
				}
				nb = append(nb, trace.Serving("loner", "loner", others[1].AllBlocks(), S.BlocksLimit))
				r.Shuffle(len(nb), func(i, j int) { nb[i], nb[j] = nb[j], nb[i] })
			}
		}
		v, _ := w.Sync(host, sc.clock, nb)
		if m := v.Info["sync"]; m == "extension" || m == "resync" || m == "tipswap" {
			sc.mark("adopted")
		}
		if r.Intn(2) == 0 {
			sc.clock += S.Interval
			grow(pick(r, nodes))
		}
	}
}

// profile "fork" (C06), structured part: three private lineages (own first blocks) grown on the same clock — the host
// (3–4 blocks), a bloc lineage served by all neighbours but one, and a LONER lineage one block longer served by a
// single neighbour; odd numbers of neighbours.  The loner is on a branch shared by fewer than half of the candidates
// (the host's own chain is a candidate): the bloc's chain must win although the loner's is the longest.
func (sc *scenario) runLoner() {
	r := sc.rng
	w := sc.w
	S := w.S
	a, b, c := w.Nodes[0], w.Nodes[1], w.Nodes[2]
	sc.clock = T0
	for _, n := range []*node.Node{a, b, c} {
		w.Tick(n, sc.clock)
	}
	ha := 3 + r.Intn(2)
	L := ha + 1 + r.Intn(3)
	for i := 1; i <= L; i++ {
		sc.clock += S.Interval
		if i < ha {
			w.Tick(a, sc.clock)
		}
		if i < L {
			w.Tick(b, sc.clock)
		}
		w.Tick(c, sc.clock)
	}
	cnt := pick(r, []int{3, 3, 5})
	var nb []trace.Neighbour
	for j := 0; j < cnt-1; j++ {
		nb = append(nb, trace.Serving(fmt.Sprintf("bloc%d", j), "bloc", b.AllBlocks(), S.BlocksLimit))
	}
	nb = append(nb, trace.Serving("loner", "loner", c.AllBlocks(), S.BlocksLimit))
	r.Shuffle(len(nb), func(i, j int) { nb[i], nb[j] = nb[j], nb[i] })
	if v, _ := w.Sync(a, sc.clock, nb); v != nil {
		if m := v.Info["sync"]; m == "resync" {
			sc.mark("adopted")
		}
	}
	w.Read(a, 0)
}

// profile "alias" (C12), structured part: three nodes share a LONG prefix (lengths around Go's allocation size
// classes, where a cloned slice gets spare capacity), each produces its own tip, two go one block further; the third
// is then offered, in random order, the valid longer chain and a competitor that is rejected after its first block
// (and the reverse roles), so that candidate verifications that share a prefix slice would overwrite each other.
func (sc *scenario) runLongPrefix() {
	r := sc.rng
	w := sc.w
	S := w.S
	if len(w.Nodes) < 3 {
		sc.run(20)
		return
	}
	a, b, c := w.Nodes[0], w.Nodes[1], w.Nodes[2]
	L := pick(r, []int{33, 33, 34, 37, 38, 41, 65, 66})
	sc.clock = T0
	w.Tick(a, sc.clock)
	for len(a.AllBlocks()) < L && w.Continue() {
		if r.Intn(6) == 0 {
			if tx, _ := sc.makeTx(a, pick(r, []string{"valid", "yield-new"})); tx != nil {
				if w.Submit(a, tx).Info["submit"] == "admitted" {
					sc.mark("admitted")
				}
			}
		}
		sc.clock += S.Interval
		if v := w.Tick(a, sc.clock); v.Info["included"] != "0" && v.Info["included"] != "" {
			sc.mark("block-with-tx")
		}
	}
	for _, f := range []*node.Node{b, c} {
		w.Tick(f, T0)
		if sc.catchUp(f, a, sc.clock, 3+ceilDiv(L, int(S.BlocksLimit)-1)) > 3+ceilDiv(L, int(S.BlocksLimit)-1) {
			return
		}
	}
	sc.mark("adopted")
	sc.clock += S.Interval
	for _, n := range []*node.Node{a, b, c} {
		w.Tick(n, sc.clock) // three competing tips on the shared prefix
	}
	sc.clock += S.Interval
	w.Tick(a, sc.clock)
	w.Tick(b, sc.clock)
	for round := 0; round < 2 && w.Continue(); round++ {
		good, bad := a, b
		if r.Intn(2) == 0 {
			good, bad = b, a
		}
		bc := bad.AllBlocks()
		broken := sc.mutate(c, bc, len(bc)-1, pick(r, []string{"no-reward", "two-rewards", "bad-ts", "reward-plus1"}), 0)
		if broken == nil {
			return
		}
		g := trace.Honest(good)
		g.Target = "peerGood"
		nb := []trace.Neighbour{g, trace.Serving("peerBad", "break:second-block", broken, S.BlocksLimit)}
		if r.Intn(3) == 0 {
			nb = append(nb, trace.Serving("peerBad2", "break:second-block", broken, S.BlocksLimit))
		}
		r.Shuffle(len(nb), func(i, j int) { nb[i], nb[j] = nb[j], nb[i] })
		w.Sync(c, sc.clock, nb)
		for h := len(c.AllBlocks()) - 3; h <= len(c.AllBlocks()); h++ {
			if h >= 0 {
				w.Read(c, uint64(h))
			}
		}
		// next round: everyone moves on, c competes again
		sc.clock += S.Interval
		w.Tick(a, sc.clock)
		w.Tick(b, sc.clock)
	}
}

// profile "pool" (C11), structured part: the income hand-over constellation, repeated — wallet X holds a confirmed
// yielding output y and a confirmed plain output pl; pooled in this order: A (X releases y), B (X spends pl into a NEW
// yielding output for X: admissible only after A), C (an unrelated valid transaction); then the on-schedule tick.
// Whatever the shuffle (B tried before A is refused at its turn), C belongs in the block.
func (sc *scenario) runHandover() {
	r := sc.rng
	w := sc.w
	S := w.S
	n := w.Nodes[0]
	sc.clock = T0
	w.Tick(n, sc.clock)
	tick := func() {
		sc.clock = n.Chain.LastBlockTimestamp() + S.Interval
		if v := w.Tick(n, sc.clock); v.Info["included"] != "0" && v.Info["included"] != "" {
			sc.mark("block-with-tx")
		}
	}
	tick()
	tick()
	submit := func(sp []node.Spend, o []node.RawOutput) bool {
		tx, _, err := node.MakeTx(sp, o, n.Chain.LastBlockTimestamp())
		if err != nil {
			return false
		}
		ok := w.Submit(n, tx).Info["submit"] == "admitted"
		if ok {
			sc.mark("admitted")
		}
		return ok
	}
	for rep := 0; rep < 7 && w.Continue(); rep++ {
		next := n.Chain.LastBlockTimestamp() + S.Interval
		var y, pl *utxoRef
		conf := sc.confirmed(n)
		for i := range conf {
			if conf[i].u.IsYielding() && sc.value(conf[i].u, next) > 4*S.MinFee+8 {
				y = &conf[i]
				break
			}
		}
		if y == nil {
			return
		}
		for i := range conf {
			if conf[i].owner == y.owner && !conf[i].u.IsYielding() && sc.value(conf[i].u, next) > 2*S.MinFee+4 {
				pl = &conf[i]
				break
			}
		}
		vy := sc.value(y.u, next)
		if pl == nil {
			// set-up: split y into a plain and a yielding output of X, confirm, start over
			rem := vy - S.MinFee
			var o2 *node.Wallet
			for _, c := range w.Wallets {
				if c != y.owner {
					o2 = c
					break
				}
			}
			if o2 == nil {
				return
			}
			if !submit([]node.Spend{{TxId: y.u.TransactionId(), Index: y.u.OutputIndex(), By: y.owner}},
				[]node.RawOutput{{Address: y.owner.Address, Value: rem / 3}, {Address: o2.Address, Value: rem / 3}, {Address: y.owner.Address, IsYielding: true, Value: rem - 2*(rem/3)}}) {
				return
			}
			tick()
			tick()
			continue
		}
		vp := sc.value(pl.u, next)
		var other *node.Wallet
		for _, c := range w.Wallets {
			if c != y.owner {
				other = c
				break
			}
		}
		if other == nil {
			return
		}
		okA := submit([]node.Spend{{TxId: y.u.TransactionId(), Index: y.u.OutputIndex(), By: y.owner}},
			[]node.RawOutput{{Address: other.Address, Value: (vy - S.MinFee) / 2}, {Address: y.owner.Address, Value: vy - S.MinFee - (vy-S.MinFee)/2}})
		okB := okA && submit([]node.Spend{{TxId: pl.u.TransactionId(), Index: pl.u.OutputIndex(), By: pl.owner}},
			[]node.RawOutput{{Address: y.owner.Address, IsYielding: true, Value: (vp - S.MinFee) / 2}, {Address: y.owner.Address, Value: vp - S.MinFee - (vp-S.MinFee)/2}})
		if okB {
			w.Hist["handover:A+B"]++
			// C: the most valuable confirmed output that is neither y nor pl, spent by its owner
			var c *utxoRef
			for i := range conf {
				u := &conf[i]
				if u.u == y.u || u.u == pl.u || sc.value(u.u, next) <= 2*S.MinFee+2 {
					continue
				}
				if c == nil || sc.value(u.u, next) > sc.value(c.u, next) {
					c = u
				}
			}
			if c != nil && r.Intn(8) != 0 {
				vc := sc.value(c.u, next)
				if submit([]node.Spend{{TxId: c.u.TransactionId(), Index: c.u.OutputIndex(), By: c.owner}},
					[]node.RawOutput{{Address: other.Address, Value: (vc - S.MinFee) / 2}, {Address: c.owner.Address, Value: vc - S.MinFee - (vc-S.MinFee)/2}}) {
					w.Hist["handover:A+B+C"]++
				}
			} else if c == nil {
				w.Hist["handover:C→none"]++
			}
		}
		tick()
		tick()
	}
}

// profile "interleave" (C16; monitors off: the MODEL predicts these outcomes, the unserializable one included): three
// nodes share a chain, each produces its own tip (with a transaction of its own when it can), each then receives one
// more transaction and runs its next tick WITH a whole sync round against the two others committing between the tick's
// reads and its AddBlock (TickSync); ticks inside rounds and submissions inside rounds are mixed in.
func (sc *scenario) runInterleave() {
	r := sc.rng
	w := sc.w
	S := w.S
	a, b, c := w.Nodes[0], w.Nodes[1], w.Nodes[2]
	L := 3 + r.Intn(8)
	sc.clock = T0
	w.Tick(a, sc.clock)
	for len(a.AllBlocks()) < L && w.Continue() {
		if r.Intn(2) == 0 {
			if tx, _ := sc.makeTx(a, pick(r, []string{"valid", "valid", "many-outputs"})); tx != nil {
				w.Submit(a, tx)
			}
		}
		sc.clock += S.Interval
		w.Tick(a, sc.clock)
	}
	for _, f := range []*node.Node{b, c} {
		w.Tick(f, T0)
		if sc.catchUp(f, a, sc.clock, 3+ceilDiv(L, int(S.BlocksLimit)-1)) > 3+ceilDiv(L, int(S.BlocksLimit)-1) {
			return
		}
	}
	sc.mark("adopted")
	nodes := []*node.Node{a, b, c}
	for round := 0; round < 3 && w.Continue(); round++ {
		sc.clock += S.Interval
		for _, n := range nodes {
			if tx, _ := sc.makeTx(n, pick(r, []string{"valid", "valid", "yield-new"})); tx != nil && r.Intn(4) != 0 {
				if w.Submit(n, tx).Info["submit"] == "admitted" {
					sc.mark("admitted")
				}
			}
			w.Tick(n, sc.clock) // competing tips
		}
		for _, host := range nodes {
			var nb []trace.Neighbour
			for i, o := range nodes {
				if o != host {
					h := trace.Honest(o)
					h.Target = fmt.Sprintf("tip%d", i)
					nb = append(nb, h)
				}
			}
			r.Shuffle(len(nb), func(i, j int) { nb[i], nb[j] = nb[j], nb[i] })
			if tx, _ := sc.makeTx(host, pick(r, []string{"valid", "valid", "double-spend", "spend-last-block"})); tx != nil && r.Intn(5) != 0 {
				w.Submit(host, tx)
			}
			switch r.Intn(4) {
			case 0:
				w.SyncTick(host, sc.clock, nb, sc.clock+S.Interval)
			case 1:
				if tx, _ := sc.makeTx(host, "valid"); tx != nil {
					w.SyncSubmit(host, sc.clock, nb, tx)
				} else {
					w.Sync(host, sc.clock, nb)
				}
			default:
				v := w.TickSync(host, sc.clock+S.Interval, sc.clock, nb)
				w.Hist["ticksync-outcomes:"+v.Info["ticksync"]]++
				// did the unserializable outcome occur (a chain no fresh node can adopt)?  counted, not judged: the model
				// predicted whatever the node holds now
				if !sc.adoptable(host.AllBlocks(), sc.clock+2*S.Interval) {
					w.Hist["ticksync:chain-no-fresh-node-adopts"]++
				} else {
					w.Hist["ticksync:chain-adoptable"]++
				}
			}
		}
		// converge on a's chain before the next round (the blocks appended above are dated clock + interval)
		sc.clock += S.Interval
		for _, f := range []*node.Node{b, c} {
			if !sameChain(f, a) {
				sc.catchUp(f, a, sc.clock, 4)
			}
		}
		if !sameChain(b, a) || !sameChain(c, a) {
			return
		}
	}
}

// adoptable: a fresh node (outside the traced world) adopts the chain from a neighbour serving it
func (sc *scenario) adoptable(chain []*ledger.Block, now int64) bool {
	if len(chain) < 2 {
		return true
	}
	f := node.New("probe", sc.w.S, sc.w.Wallets[0].Address)
	f.Pool.Validate(T0)
	page := sc.w.S.BlocksLimit
	f.Senders.Set([]application.Sender{&node.Sender{TargetValue: "src", Blocks: func(h uint64) ([]byte, error) {
		return json.Marshal(trace.PageOf(chain, h, page))
	}}})
	for i := 0; i < 3+len(chain) && len(f.AllBlocks()) < len(chain); i++ {
		f.Chain.Update(now)
	}
	got := f.AllBlocks()
	return len(got) == len(chain) && node.HashHex(got[len(got)-1]) == node.HashHex(chain[len(chain)-1])
}

// profiles "shape" (C04) and "alias" (C12), structured part: three honest nodes share one long chain (lengths around
// Go's allocation size classes); one produces the next block; another is offered, in both orders, the neighbour that is
// one block ahead and the neighbour that is level with it — the candidate of the first must survive the verification
// (probe block included) of the second.
func (sc *scenario) runOneAhead() {
	r := sc.rng
	w := sc.w
	S := w.S
	a, b, c := w.Nodes[0], w.Nodes[1], w.Nodes[2]
	L := pick(r, []int{4 + r.Intn(12), 16 + r.Intn(17), 34, 35, 38, 41, 65, 66, 70})
	sc.clock = T0
	w.Tick(a, sc.clock)
	for len(a.AllBlocks()) < L && w.Continue() {
		if r.Intn(8) == 0 {
			if tx, _ := sc.makeTx(a, "valid"); tx != nil {
				if w.Submit(a, tx).Info["submit"] == "admitted" {
					sc.mark("admitted")
				}
			}
		}
		sc.clock += S.Interval
		if v := w.Tick(a, sc.clock); v.Info["included"] != "0" && v.Info["included"] != "" {
			sc.mark("block-with-tx")
		}
	}
	for _, f := range []*node.Node{b, c} {
		w.Tick(f, T0)
		if sc.catchUp(f, a, sc.clock, 3+ceilDiv(L, int(S.BlocksLimit)-1)) > 3+ceilDiv(L, int(S.BlocksLimit)-1) {
			return
		}
	}
	sc.mark("adopted")
	nodes := []*node.Node{a, b, c}
	for round := 0; round < 3 && w.Continue(); round++ {
		ahead, level, host := nodes[round%3], nodes[(round+1)%3], nodes[(round+2)%3]
		sc.clock += S.Interval
		w.Tick(ahead, sc.clock)
		na, nl := trace.Honest(ahead), trace.Honest(level)
		na.Target, nl.Target = "ahead", "level"
		nb := []trace.Neighbour{na, nl}
		if round == 1 || r.Intn(3) == 0 {
			nb = []trace.Neighbour{nl, na}
		}
		if r.Intn(3) == 0 {
			n2 := trace.Honest(level)
			n2.Target = "level2"
			nb = append(nb, n2)
		}
		w.Sync(host, sc.clock, nb)
		for h := len(host.AllBlocks()) - 2; h <= len(host.AllBlocks()); h++ {
			if h >= 0 {
				w.Read(host, uint64(h))
			}
		}
		if !sameChain(host, ahead) {
			sc.catchUp(host, ahead, sc.clock, 3)
		}
		sc.catchUp(level, ahead, sc.clock, 3)
		if !sameChain(host, ahead) || !sameChain(level, ahead) {
			return
		}
	}
}

// profile "fork" (C06), competing tips: three nodes share a chain of every small length, each produces its own tip at
// the same timestamp, then every node is offered the two other tips (both valid) in a random order, possibly with a
// neighbour that is rejected after its first block — the incremental path with several candidates built on ONE
// shared copy of the host's prefix.
func (sc *scenario) runTips() {
	r := sc.rng
	w := sc.w
	S := w.S
	a, b, c := w.Nodes[0], w.Nodes[1], w.Nodes[2]
	L := 3 + r.Intn(11)
	sc.clock = T0
	w.Tick(a, sc.clock)
	for len(a.AllBlocks()) < L && w.Continue() {
		if r.Intn(4) == 0 {
			if tx, _ := sc.makeTx(a, "valid"); tx != nil {
				w.Submit(a, tx)
			}
		}
		sc.clock += S.Interval
		w.Tick(a, sc.clock)
	}
	for _, f := range []*node.Node{b, c} {
		w.Tick(f, T0)
		if sc.catchUp(f, a, sc.clock, 3+ceilDiv(L, int(S.BlocksLimit)-1)) > 3+ceilDiv(L, int(S.BlocksLimit)-1) {
			return
		}
	}
	sc.mark("adopted")
	nodes := []*node.Node{a, b, c}
	for round := 0; round < 3 && w.Continue(); round++ {
		sc.clock += S.Interval
		for _, n := range nodes {
			if r.Intn(2) == 0 { // a tip with effects of its own: a spend, a fee, possibly a new income
				if tx, _ := sc.makeTx(n, pick(r, []string{"valid", "valid", "yield-new"})); tx != nil {
					if w.Submit(n, tx).Info["submit"] == "admitted" {
						sc.mark("admitted")
					}
				}
			}
			w.Tick(n, sc.clock) // competing tips on the shared chain
		}
		for _, host := range nodes {
			var nb []trace.Neighbour
			for i, o := range nodes {
				if o != host {
					h := trace.Honest(o)
					h.Target = fmt.Sprintf("tip%d", i)
					nb = append(nb, h)
				}
			}
			if r.Intn(2) == 0 {
				oc := pick(r, nodes).AllBlocks()
				if c1 := sc.mutate(host, oc, len(oc)-1, "ok-fee", 1); c1 != nil {
					if c2 := sc.mutate(host, c1, len(c1)-1, pick(r, []string{"no-reward", "bad-ts", "two-rewards"}), 0); c2 != nil {
						nb = append(nb, trace.Serving("late-reject", "late-reject", c2, S.BlocksLimit))
					}
				}
			}
			r.Shuffle(len(nb), func(i, j int) { nb[i], nb[j] = nb[j], nb[i] })
			tipH := uint64(len(host.AllBlocks()) - 1)
			w.Read(host, tipH) // what the host serves for its tip before the round … (and after it, below)
			var v *trace.Verdict
			if r.Intn(3) == 0 {
				// the host's next block is produced while the round (which would swap its tip) waits
				v, _ = w.SyncTick(host, sc.clock, nb, sc.clock+S.Interval)
			} else {
				v, _ = w.Sync(host, sc.clock, nb)
			}
			if v != nil {
				if m := v.Info["sync"]; m == "tipswap" || m == "extension" {
					sc.mark("adopted")
				}
			}
			w.Read(host, tipH)
		}
		// converge on one chain before the next round of competing tips
		for _, f := range []*node.Node{b, c} {
			if !sameChain(f, a) {
				sc.catchUp(f, a, sc.clock, 3)
			}
		}
		if !sameChain(b, a) || !sameChain(c, a) {
			return
		}
	}
}

// profile "faults" (C13): many consecutive rounds with faulty neighbours only.
func (sc *scenario) runFaults(maxOps int) {
	r := sc.rng
	w := sc.w
	S := w.S
	a := w.Nodes[0]
	sc.clock = T0
	hostLen := pick(r, []int{0, 1, 2, 3, 4, 6})
	for i := 0; i < hostLen; i++ {
		w.Tick(a, sc.clock)
		sc.clock += S.Interval
		if i >= 1 && r.Intn(2) == 0 {
			if tx, _ := sc.makeTx(a, "valid"); tx != nil {
				w.Submit(a, tx)
			}
		}
		if i >= 1 && r.Intn(3) == 0 {
			w.RegSync(a, []string{a.Validator}, nil)
		}
	}
	for round := 0; round < maxOps/3 && w.Continue(); round++ {
		before, _, _ := a.Observe()
		var nb []trace.Neighbour
		k := 1 + r.Intn(8)
		for i := 0; i < k; i++ {
			target := fmt.Sprintf("peer%d", i)
			switch r.Intn(9) {
			case 8: // late reject: a VALID competitor to the host's tip followed by a block broken in one way — the
				// candidate is rejected only after its first block has been accepted
				base := a.AllBlocks()
				if len(base) < 3 {
					continue
				}
				c1 := sc.mutate(a, base, len(base)-1, pick(r, []string{"ok-fee", "yield-listed", "removed-listed"}), 1)
				if c1 == nil {
					continue
				}
				c2 := sc.mutate(a, c1, len(c1)-1, pick(r, []string{"no-reward", "two-rewards", "bad-ts", "reward-plus1", "tx-future"}), r.Intn(2))
				if c2 == nil {
					continue
				}
				nb = append(nb, trace.Serving(target, "late-reject", c2, S.BlocksLimit))
			case 6: // stale / truncated: a valid PREFIX of the host's own chain (never better)
				base := a.AllBlocks()
				if len(base) < 2 {
					continue
				}
				nb = append(nb, trace.Serving(target, "stale", base[:1+r.Intn(len(base)-1)], S.BlocksLimit))
			case 7: // equal: the host's own chain (valid, not better)
				base := a.AllBlocks()
				if len(base) < 1 {
					continue
				}
				nb = append(nb, trace.Serving(target, "equal", base, S.BlocksLimit))
			case 0:
				nb = append(nb, trace.Neighbour{Target: target, Kind: "error", Answer: func(uint64, int) ([]byte, error) { return nil, fmt.Errorf("down") }})
			case 1:
				g := pick(r, []string{"xx", "", "{}", "[1,2]", "[null]", `[{"timestamp":"x"}]`, "null", "[]", `[{"transactions":[null]}]`, `[{"transactions":[{"id":"x"}]}]`})
				nb = append(nb, trace.Neighbour{Target: target, Kind: "garbage", Answer: func(uint64, int) ([]byte, error) { return []byte(g), nil }})
			case 2:
				nb = append(nb, trace.Neighbour{Target: target, Kind: "silent", Silent: true})
			default:
				base := a.AllBlocks()
				if len(base) < 2 {
					nb = append(nb, trace.Neighbour{Target: target, Kind: "error", Answer: func(uint64, int) ([]byte, error) { return nil, fmt.Errorf("down") }})
					continue
				}
				h := 1 + r.Intn(len(base)-1)
				kind := pick(r, []string{"bad-ts", "no-reward", "two-rewards", "reward-plus1", "bad-sig-tx", "unknown-input", "double-spend", "tx-future", "tx-old", "low-fee", "yield-unregistered", "unlinked", "steal"})
				ch := sc.mutate(a, base, h, kind, len(base)-h+r.Intn(3))
				if ch == nil {
					continue
				}
				nb = append(nb, trace.Serving(target, "break:"+kind, ch, S.BlocksLimit))
			}
		}
		now := sc.clock + int64(r.Intn(3))*S.Interval
		v, _ := w.Sync(a, now, nb)
		after, _, _ := a.Observe()
		// "mustkeep": every admissible outcome of the round leaves the ledger unchanged (map order decides between
		// admissible selections, so the mode of one outcome is not enough)
		if v.Info["mustkeep"] == "true" {
			jb, _ := json.Marshal([]interface{}{before.Chain, before.ById, before.ByAddr, before.Registered, before.Pending, before.Pool})
			ja, _ := json.Marshal([]interface{}{after.Chain, after.ById, after.ByAddr, after.Registered, after.Pending, after.Pool})
			if string(ja) != string(jb) {
				sc.propFail("C13 state changed by a round in which no better valid chain was offered", "sync")
				return
			}
		}
		sc.mark("adopted") // a round with faulty neighbours is the non-trivial event of this profile
	}
}

type summary struct {
	Seed               int64          `json:"seed"`
	Profile            string         `json:"profile"`
	Scenarios          int            `json:"scenarios"`
	Evaluations        int            `json:"evaluations"`
	DistinctNontrivial int            `json:"distinct_nontrivial"`
	Rule               string         `json:"rule"`
	Hist               map[string]int `json:"hist"`
	Samples            []interface{}  `json:"samples"`
	Failures           []failureOut   `json:"failures"`
}

type failureOut struct {
	Kind      string `json:"kind"`
	Text      string `json:"text"`
	Op        string `json:"op"`
	Scenario  int    `json:"scenario"`
	Seed      int64  `json:"seed"`
	Line      int    `json:"line"`
	TraceFile string `json:"trace_file"`
}

func main() {
	seed := flag.Int64("seed", 1, "PRNG seed")
	count := flag.Int("scenarios", 50, "number of scenarios")
	maxOps := flag.Int("ops", 60, "max operations per scenario")
	driver := flag.String("driver", "", "path of rudriver")
	profile := flag.String("profile", "mixed", "generator profile")
	traceDir := flag.String("tracedir", "", "where to write traces of failing scenarios")
	only := flag.Int("only", -1, "run only this scenario index")
	flag.Parse()
	sum := summary{Seed: *seed, Profile: *profile, Hist: map[string]int{},
		Rule: "scenario = settings from a lattice × 1–3 real nodes × ≤ops operations (tick/submit/sync/regsync/read) from one PRNG; non-trivial = at least one admitted transaction AND one block holding an ordinary transaction, or one adopted neighbour chain; distinct by structural digest of the operation/outcome sequence"}
	digests := map[string]bool{}
	for i := 0; i < *count; i++ {
		if *only >= 0 && i != *only {
			continue
		}
		rng := rand.New(rand.NewSource(*seed*1_000_003 + int64(i)))
		s := genSettings(rng, *profile)
		nn := 1 + rng.Intn(3)
		switch *profile {
		case "catchup":
			nn = 5
		case "agree":
			nn = 2 + 10
		case "faults":
			nn = 1
		case "fork", "alias", "interleave":
			nn = 3
		}
		handover := *profile == "pool" && rng.Intn(5) == 0
		oneAhead := (*profile == "shape" || *profile == "alias") && rng.Intn(8) == 0
		if oneAhead {
			nn = 3
		}
		var validators []int
		for k := 0; k < nn; k++ {
			validators = append(validators, k%5)
		}
		w, err := trace.NewWorld(s, 5, validators, rng, *driver, *profile != "offgrid" && *profile != "interleave")
		if err != nil {
			fmt.Fprintln(os.Stderr, "cannot start driver:", err)
			os.Exit(2)
		}
		// one world in four has neighbours that encode their answers like a non-Go peer (members sorted, indented)
		if i%4 == 3 {
			w.Foreign = true
			w.Hist["world:foreign-encoded-neighbours"]++
		}
		sc := &scenario{w: w, rng: rng, profile: *profile, nontriv: map[string]bool{}}
		ops := 10 + rng.Intn(*maxOps-9)
		switch {
		case handover:
			sc.runHandover()
			w.Close()
			goto done
		case oneAhead:
			sc.runOneAhead()
			w.Close()
			goto done
		}
		switch *profile {
		case "interleave":
			sc.runInterleave()
		case "agree":
			sc.runAgree(ops / 3)
		case "catchup":
			sc.runCatchup(ops)
		case "faults":
			sc.runFaults(ops)
		case "alias":
			if rng.Intn(6) == 0 {
				sc.runLongPrefix()
			} else {
				sc.run(ops)
			}
		case "fork":
			switch rng.Intn(5) {
			case 4:
				sc.runLoner()
			case 0:
				sc.runTips()
			case 1, 2:
				sc.runFork(ops)
			default:
				sc.run(ops)
			}
		default:
			sc.run(ops)
		}
		w.Close()
	done:
		sum.Scenarios++
		sum.Evaluations += w.Ops
		for k, v := range w.Hist {
			sum.Hist[k] += v
		}
		// structural digest: op kinds and outcomes
		var dg []string
		for _, v := range w.Verdicts {
			for _, k := range []string{"tick", "submit", "sync", "regsync", "read"} {
				if x, ok := v.Info[k]; ok {
					dg = append(dg, k+"="+x)
				}
			}
		}
		d := node.Sha256Hex([]byte(strings.Join(dg, ";")))
		if (sc.nontriv["admitted"] && sc.nontriv["block-with-tx"]) || sc.nontriv["adopted"] {
			if !digests[d] {
				digests[d] = true
				sum.DistinctNontrivial++
				if len(sum.Samples) < 3 {
					if len(dg) > 40 {
						dg = dg[:40]
					}
					sum.Samples = append(sum.Samples, map[string]interface{}{"seed": *seed, "scenario": i, "ops": dg})
				}
			}
		}
		if len(w.Failures) > 0 {
			tf := ""
			if *traceDir != "" {
				_ = os.MkdirAll(*traceDir, 0o755)
				tf = filepath.Join(*traceDir, fmt.Sprintf("trace-%d-%d.jsonl", *seed, i))
				f, err := os.Create(tf)
				if err == nil {
					for _, l := range w.Lines {
						_, _ = f.Write(append(l, '\n'))
					}
					_ = f.Close()
				}
			}
			for _, fl := range w.Failures {
				sum.Failures = append(sum.Failures, failureOut{fl.Kind, fl.Text, fl.OpKind, i, *seed, fl.Line, tf})
			}
		}
	}
	if sum.Samples == nil {
		sum.Samples = []interface{}{}
	}
	_ = json.NewEncoder(os.Stdout).Encode(sum)
}
