package main

import (
	"fmt"
	"ruverif/internal/node"
)

func main() {
	s := node.DefaultSettings()
	w := node.NewWallet(1)
	n := node.New("n0", s, w.Address)
	ts := int64(1_700_000_000_000_000_000)
	n.Pool.Validate(ts)
	o, blocks, _ := n.Observe()
	fmt.Println(len(blocks), o.Chain, o.Log, o.Registered)
	n.Pool.Validate(ts + s.Interval)
	o, blocks, _ = n.Observe()
	fmt.Println(len(blocks), o.Log, o.Registered, len(o.ById), len(o.ByAddr))
}
