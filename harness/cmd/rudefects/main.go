// rudefects replays, against the REAL code, the concrete witnesses of the defects found on the pinned
// tree (DESIGN.md §6). Each witness is a small deterministic history through public API only.
// Output: one JSON line per witness {"id","property","signature","reproduced","detail"}.
// A witness listed as "fixed" in known_findings.json must not reproduce; one listed as "known" is
// reported as KNOWN-FINDING by ./check.
package main

import (
	"context"
	"encoding/json"
	"flag"
	"fmt"
	"os"
	"os/exec"
	"runtime"
	"strings"
	"time"

	gp2p "github.com/leprosus/golang-p2p"

	"github.com/my-cloud/ruthenium/validatornode/application"
	"github.com/my-cloud/ruthenium/validatornode/domain/ledger"
	"github.com/my-cloud/ruthenium/validatornode/presentation/api/payment"

	"ruverif/internal/node"
)

const T0 = int64(1_700_000_040_000_000_000) // multiple of one minute

type result struct {
	Id         string `json:"id"`
	Property   string `json:"property"`
	Signature  string `json:"signature"`
	Reproduced bool   `json:"reproduced"`
	Detail     string `json:"detail"`
}

type witness struct {
	id, property, signature string
	run                     func() (bool, string)
	child                   bool // must run in a child process (can kill or wedge the process)
}

func settings() *node.Settings {
	s := node.DefaultSettings()
	s.Timeout = 100 * time.Millisecond
	return s
}

// chain with genesis to w0, n more empty blocks; returns node and the genesis transaction id
func boot(name string, s *node.Settings, w0 *node.Wallet, extra int) (*node.Node, string) {
	n := node.New(name, s, w0.Address)
	n.Pool.Validate(T0)
	for i := 1; i <= extra; i++ {
		n.Pool.Validate(T0 + int64(i)*s.Interval)
	}
	b := n.AllBlocks()
	return n, b[0].Transactions()[0].Id()
}

func recoverTo(p *bool, d *string) {
	if r := recover(); r != nil {
		*p = true
		*d = fmt.Sprintf("panic: %v", r)
	}
}

func serve(n *node.Node) *node.Sender {
	return &node.Sender{TargetValue: n.Name, Blocks: func(h uint64) ([]byte, error) { return n.ServeBlocks(h) }}
}

// ---- D1: uint64 wrap in the fee calculation
func d1() (bool, string) {
	s := settings()
	w0, a, b := node.NewWallet(0), node.NewWallet(1), node.NewWallet(2)
	n, gid := boot("n", s, w0, 1)
	last := T0 + s.Interval
	tx, _, err := node.MakeTx([]node.Spend{{gid, 0, w0}},
		[]node.RawOutput{{a.Address, false, 1 << 63}, {b.Address, false, (1 << 63) + 5}}, last)
	if err != nil {
		return false, "build: " + err.Error()
	}
	n.Pool.AddTransaction(tx, "", "")
	if len(n.Pool.Transactions()) != 1 {
		return false, "transaction paying 2^64+5 from a 10^7 genesis was refused"
	}
	n.Pool.Validate(last + s.Interval)
	n.Pool.Validate(last + 2*s.Interval)
	var got uint64
	for _, u := range n.Utxos.Utxos(a.Address) {
		got += u.InitialValue()
	}
	return true, fmt.Sprintf("admitted; after confirmation address A holds %d units out of a %d genesis", got, s.Genesis)
}

// ---- D2: the producer includes a spend of a last-block output; a synced honest peer rejects the block
func d2() (bool, string) {
	s := settings()
	w0, w1, w2 := node.NewWallet(0), node.NewWallet(1), node.NewWallet(2)
	n, gid := boot("n", s, w0, 1)
	t1 := T0 + s.Interval
	tx1, _, err := node.MakeTx([]node.Spend{{gid, 0, w0}}, []node.RawOutput{{w1.Address, false, 5_000_000}}, t1)
	if err != nil {
		return false, err.Error()
	}
	n.Pool.AddTransaction(tx1, "", "")
	n.Pool.Validate(T0 + 2*s.Interval) // block 2 holds tx1 (unconfirmed: it is the tip)
	p := node.New("p", s, w2.Address)
	p.Pool.Validate(T0) // private first block
	p.Senders.Set([]application.Sender{serve(n)})
	p.Chain.Update(T0 + 2*s.Interval)
	if len(p.AllBlocks()) != 3 {
		return false, fmt.Sprintf("setup: peer did not adopt the 3-block chain (has %d)", len(p.AllBlocks()))
	}
	t2 := T0 + 2*s.Interval
	tx2, _, err := node.MakeTx([]node.Spend{{tx1.Id(), 0, w1}}, []node.RawOutput{{w2.Address, false, 4_000_000}}, t2)
	if err != nil {
		return false, err.Error()
	}
	n.Pool.AddTransaction(tx2, "", "")
	admitted := len(n.Pool.Transactions()) == 1
	n.Pool.Validate(T0 + 3*s.Interval)
	blocks := n.AllBlocks()
	included := false
	for _, t := range blocks[len(blocks)-1].Transactions() {
		if t.Id() == tx2.Id() {
			included = true
		}
	}
	p.Chain.Update(T0 + 3*s.Interval)
	pl := len(p.AllBlocks())
	if len(blocks) == 4 && pl != 4 {
		return true, fmt.Sprintf("producer admitted=%v included=%v a spend of a last-block output; honest peer holding the same chain refused the block (peer length %d, log %v)", admitted, included, pl, tail(p.Log.Drain(), 4))
	}
	return false, fmt.Sprintf("producer admitted=%v included=%v; peer adopted the block (peer length %d)", admitted, included, pl)
}

func tail(l []string, k int) []string {
	if len(l) > k {
		return l[len(l)-k:]
	}
	return l
}

// ---- D9: a transaction spending the same output twice is admitted (valued twice) and then blocks the pool
func d9() (bool, string) {
	s := settings()
	w0, w1 := node.NewWallet(0), node.NewWallet(1)
	n, gid := boot("n", s, w0, 1)
	last := T0 + s.Interval
	tx, _, err := node.MakeTx([]node.Spend{{gid, 0, w0}, {gid, 0, w0}}, []node.RawOutput{{w1.Address, false, 2*s.Genesis - 2*s.MinFee}}, last)
	if err != nil {
		return false, "build: " + err.Error()
	}
	n.Pool.AddTransaction(tx, "", "")
	if len(n.Pool.Transactions()) != 1 {
		return false, "transaction spending the same output twice was refused"
	}
	n.Pool.Validate(last + s.Interval)
	return true, fmt.Sprintf("a transaction listing the same output twice and paying out %d from a single %d output was admitted to the pool", 2*s.Genesis-2*s.MinFee, s.Genesis)
}

// ---- D1b: an adversarial chain re-creates a consumed transaction id (a byte-identical clone of the old
// reward) and spends the reference again: the verifier values the OLD, grown instance (it judges a block
// against the state two blocks back) but the replay consumes the FRESH one
func d1b() (bool, string) {
	s := settings()
	s.HalfLife = 3 * float64(s.Interval)
	s.Base = 50_000_000
	s.Limit = 1_000_000_000
	adv, host := node.NewWallet(3), node.NewWallet(0)
	at := func(k int) int64 { return T0 + int64(k)*s.Interval }
	genesis := node.RewardRaw(adv.Address, true, T0, s.Genesis)
	mk := func(ts int64, txs ...*node.RawTx) *node.RawBlock {
		rb := &node.RawBlock{Timestamp: ts}
		rb.SetTxs(txs...)
		return rb
	}
	valueAt := func(created, now int64) uint64 {
		u := ledger.NewUtxo(ledger.NewInputInfo(0, genesis.Id), ledger.NewOutput(adv.Address, true, s.Genesis), created)
		return u.Value(now, s.HalfLife, s.Base, s.Limit)
	}
	b0 := mk(at(0), genesis)
	b0.Added = []string{adv.Address}
	b1 := mk(at(1), node.RewardRaw(adv.Address, false, at(1), 0))
	b2 := mk(at(2), node.RewardRaw(adv.Address, false, at(2), 0))
	// block 3: burn the old output as fee, re-mint a byte-identical clone of the genesis reward
	x := &node.RawTx{Timestamp: at(3), Inputs: []node.RawInput{{OutputIndex: 0, TransactionId: genesis.Id, PublicKey: adv.PubHex, Signature: adv.Sign(0, genesis.Id)}},
		Outputs: []node.RawOutput{{Address: adv.Address, IsYielding: false, Value: 0}}}
	x.Id, _ = x.ComputeId()
	clone := node.RewardRaw(adv.Address, true, T0, s.Genesis)
	b3 := mk(at(3), x, clone)
	// block 4: spend the reference again, paying out the OLD instance's value
	old := valueAt(at(0), at(4))
	fresh := valueAt(at(3), at(4))
	y := &node.RawTx{Timestamp: at(4), Inputs: []node.RawInput{{OutputIndex: 0, TransactionId: genesis.Id, PublicKey: adv.PubHex, Signature: adv.Sign(0, genesis.Id)}},
		Outputs: []node.RawOutput{{Address: adv.Address, IsYielding: false, Value: old - s.MinFee}}}
	y.Id, _ = y.ComputeId()
	b4 := mk(at(4), y, node.RewardRaw(adv.Address, false, at(4), 0))
	chain, err := node.Relink([]*node.RawBlock{b0, b1, b2, b3, b4})
	if err != nil {
		return false, "build: " + err.Error()
	}
	n := node.New("n", s, host.Address)
	n.Pool.Validate(at(0))
	bytes, _ := json.Marshal(chain)
	n.Senders.Set([]application.Sender{&node.Sender{TargetValue: "adv", Blocks: func(h uint64) ([]byte, error) {
		if h == 0 {
			return bytes, nil
		}
		return []byte("[]"), nil
	}}})
	n.Chain.Update(at(4))
	got := n.AllBlocks()
	if len(got) != 5 || node.HashHex(got[4]) != node.HashHex(chain[4]) {
		return false, fmt.Sprintf("the chain was not adopted (%d blocks): %v", len(got), tail(n.Log.Drain(), 3))
	}
	if old-s.MinFee+s.MinFee > fresh {
		return true, fmt.Sprintf("adopted a chain whose block 4 pays out %d (+ fee %d) while the output it consumes is worth %d at that block's time (the clone re-minted in block 3); the verifier valued the old instance at %d", old-s.MinFee, s.MinFee, fresh, old)
	}
	return false, "adopted, but no excess value"
}

// ---- D10: an adopted chain whose last block is dated 0 puts the node back into "empty chain" mode:
// the next tick mints the genesis amount again, at any timestamp
func d10() (bool, string) {
	s := settings()
	adv, host := node.NewWallet(3), node.NewWallet(0)
	g := &node.RawBlock{Timestamp: -s.Interval}
	g.SetTxs(node.RewardRaw(adv.Address, true, -s.Interval, s.Genesis))
	g.Added = []string{adv.Address}
	b1 := &node.RawBlock{Timestamp: 0}
	b1.SetTxs(node.RewardRaw(adv.Address, false, 0, 0))
	chain, err := node.Relink([]*node.RawBlock{g, b1})
	if err != nil {
		return false, "build: " + err.Error()
	}
	n := node.New("n", s, host.Address)
	n.Pool.Validate(T0)
	bytes, _ := json.Marshal(chain)
	n.Senders.Set([]application.Sender{&node.Sender{TargetValue: "adv", Blocks: func(h uint64) ([]byte, error) {
		if h == 0 {
			return bytes, nil
		}
		return []byte("[]"), nil
	}}})
	n.Chain.Update(T0)
	if len(n.AllBlocks()) != 2 || n.Chain.LastBlockTimestamp() != 0 {
		return false, fmt.Sprintf("the chain dated [-interval, 0] was not adopted: %v", tail(n.Log.Drain(), 2))
	}
	n.Pool.Validate(T0 + 7*s.Interval + 13)
	blocks := n.AllBlocks()
	if len(blocks) == 3 {
		for _, t := range blocks[2].Transactions() {
			if t.HasReward() && t.RewardValue() == s.Genesis {
				return true, fmt.Sprintf("after adopting a chain whose last block is dated 0 the node produced block 2 at an off-grid timestamp with a reward of %d (the genesis amount) and no fees", t.RewardValue())
			}
		}
	}
	return false, fmt.Sprintf("no second genesis (chain length %d)", len(blocks))
}

// ---- D11: int64 wrap-around of `previous block date + interval`: a chain whose FIRST block is dated just below 2^63
// (two and a half centuries after the node's clock) and whose following blocks are dated one interval later each —
// in wrapped arithmetic, i.e. far in the past — passes verifyBlock's date checks (the first block's date is never
// tested, the others are "expected" and "not in the future")
func d11() (bool, string) {
	s := settings()
	adv, host := node.NewWallet(3), node.NewWallet(0)
	const maxI64 = int64(^uint64(0) >> 1)
	t0 := maxI64 - s.Interval/2 // first block: later than any clock reading the node will ever see
	t1 := t0 + s.Interval       // wraps: about -2^63
	t2 := t1 + s.Interval
	g := &node.RawBlock{Timestamp: t0}
	g.SetTxs(node.RewardRaw(adv.Address, true, t0, s.Genesis))
	g.Added = []string{adv.Address}
	b1 := &node.RawBlock{Timestamp: t1}
	b1.SetTxs(node.RewardRaw(adv.Address, false, t1, 0))
	b2 := &node.RawBlock{Timestamp: t2}
	b2.SetTxs(node.RewardRaw(adv.Address, false, t2, 0))
	chain, err := node.Relink([]*node.RawBlock{g, b1, b2})
	if err != nil {
		return false, "build: " + err.Error()
	}
	n := node.New("n", s, host.Address)
	n.Pool.Validate(T0)
	bytes, _ := json.Marshal(chain)
	n.Senders.Set([]application.Sender{&node.Sender{TargetValue: "adv", Blocks: func(h uint64) ([]byte, error) {
		if h == 0 {
			return bytes, nil
		}
		return []byte("[]"), nil
	}}})
	now := T0 + s.Interval
	n.Chain.Update(now)
	bs := n.AllBlocks()
	if len(bs) != 3 || bs[0].Timestamp() != t0 {
		return false, fmt.Sprintf("the wrapped chain was not adopted (chain length %d): %v", len(bs), tail(n.Log.Drain(), 2))
	}
	return true, fmt.Sprintf("at time %d the node adopted a chain dated [%d, %d, %d]: its first block lies %d ns after the node's clock, and the "+
		"second block is dated 2^64 - interval BEFORE the first (the expected date previous + interval wrapped around int64)", now, t0, t1, t2, t0-now)
}

// ---- D12: output indexes are uint16: in a transaction with more than 65536 outputs, output 65536 is recorded with
// index 0 — listed for its owner under the reference of ANOTHER output
func d12() (bool, string) {
	s := settings()
	w0, b, x := node.NewWallet(0), node.NewWallet(1), node.NewWallet(2)
	n, gid := boot("n", s, w0, 1)
	last := T0 + s.Interval
	next := last + s.Interval
	gv := n.Utxos.Utxos(w0.Address)[0].Value(next, s.HalfLife, s.Base, s.Limit)
	outs := make([]node.RawOutput, 65537)
	for i := range outs {
		outs[i] = node.RawOutput{Address: b.Address, Value: 0}
	}
	outs[0].Value = 5000
	outs[65536] = node.RawOutput{Address: x.Address, Value: gv - s.MinFee - 5000}
	tx, _, err := node.MakeTx([]node.Spend{{gid, 0, w0}}, outs, last)
	if err != nil {
		return false, "build: " + err.Error()
	}
	n.Pool.AddTransaction(tx, "", "")
	if len(n.Pool.Transactions()) != 1 {
		return false, fmt.Sprintf("the 65537-output transaction was refused: %v", tail(n.Log.Drain(), 2))
	}
	n.Pool.Validate(next)
	n.Pool.Validate(next + s.Interval)
	var listed []string
	for _, u := range n.Utxos.Utxos(x.Address) {
		listed = append(listed, fmt.Sprintf("(%.8s, index %d) worth %d", u.TransactionId(), u.OutputIndex(), u.Value(next+2*s.Interval, s.HalfLife, s.Base, s.Limit)))
	}
	if len(listed) != 1 {
		return false, fmt.Sprintf("wallet X lists %v", listed)
	}
	u := n.Utxos.Utxos(x.Address)[0]
	if u.OutputIndex() != 0 {
		return false, "output 65536 is listed with index " + fmt.Sprint(u.OutputIndex())
	}
	v := u.Value(next+2*s.Interval, s.HalfLife, s.Base, s.Limit)
	spend, _, err := node.MakeTx([]node.Spend{{tx.Id(), u.OutputIndex(), x}}, []node.RawOutput{{x.Address, false, v - s.MinFee}}, next+s.Interval)
	if err != nil {
		return false, "build spend: " + err.Error()
	}
	n.Log.Drain()
	n.Pool.AddTransaction(spend, "", "")
	if len(n.Pool.Transactions()) == 1 {
		return false, "the spend of the listed reference was admitted"
	}
	return true, fmt.Sprintf("output 65536 of a 65537-output transaction is listed for its owner as %s — the reference of output 0, which belongs to someone else; "+
		"the owner's transaction built from the listing is refused: %v", listed[0], tail(n.Log.Drain(), 1))
}

// ---- D3: honest block with a yielding output to an address removed by the previous block is rejected
// by a peer that holds the same chain plus its own competing tip
func d3() (bool, string) {
	s := settings()
	w0, w1, w2 := node.NewWallet(0), node.NewWallet(1), node.NewWallet(2)
	a, gid := boot("a", s, w0, 1)
	at := func(k int) int64 { return T0 + int64(k)*s.Interval }
	tx1, _, err := node.MakeTx([]node.Spend{{gid, 0, w0}}, []node.RawOutput{{w1.Address, true, 1_000_000}, {w0.Address, false, 8_000_000}}, at(1))
	if err != nil {
		return false, err.Error()
	}
	a.Pool.AddTransaction(tx1, "", "")
	a.Pool.Validate(at(2)) // block 2: tx1, registers w1
	a.Pool.Validate(at(3)) // block 3: block 2 confirmed
	if !a.Reg.IsRegistered(w1.Address) {
		return false, "setup: w1 not registered"
	}
	a.Humans.Set([]string{w1.Address}, nil)
	a.Reg.Synchronize(0)
	a.Humans.Set(nil, nil)
	a.Pool.Validate(at(4)) // block 4 lists w1 as removed
	// peer g takes the chain up to block 4
	g := node.New("g", s, w2.Address)
	g.Pool.Validate(T0)
	g.Senders.Set([]application.Sender{serve(a)})
	g.Chain.Update(at(4))
	if len(g.AllBlocks()) != 5 {
		return false, fmt.Sprintf("setup: peer has %d blocks", len(g.AllBlocks()))
	}
	tx2, _, err := node.MakeTx([]node.Spend{{tx1.Id(), 0, w1}}, []node.RawOutput{{w1.Address, true, 900_000}}, at(4))
	if err != nil {
		return false, err.Error()
	}
	a.Pool.AddTransaction(tx2, "", "")
	if len(a.Pool.Transactions()) != 1 {
		return false, fmt.Sprintf("setup: tx2 not admitted: %v", tail(a.Log.Drain(), 2))
	}
	a.Pool.Validate(at(5)) // honest block 5 yields to w1, removed by block 4
	g.Pool.Validate(at(5)) // the peer's own competing tip
	g.Log.Drain()
	g.Chain.Update(at(5))
	for _, l := range g.Log.Drain() {
		if strings.Contains(l, "failed to verify") && strings.Contains(l, "not registered") {
			return true, "a peer holding the same chain plus its own tip refused the honest block: " + l
		}
	}
	return false, "the honest block passed verification on the competing peer"
}

// ---- D4a: a chained block is mutated through the shared pending-removal slice
func d4a() (bool, string) {
	s := settings()
	w0 := node.NewWallet(0)
	n, _ := boot("n", s, w0, 1)
	n.Reg.Update([]string{"P", "Q"}, nil)
	n.Humans.Set([]string{"P", "Q"}, nil)
	n.Reg.Synchronize(0)
	n.Pool.Validate(T0 + 2*s.Interval) // block 2 lists P and Q as removed
	b := n.AllBlocks()
	before := node.HashHex(b[2])
	rb := append([]string(nil), b[2].RemovedRegisteredAddresses()...)
	n.Pool.Validate(T0 + 3*s.Interval) // confirming block 2 edits the registry's pending list in place
	b = n.AllBlocks()
	after := node.HashHex(b[2])
	ra := b[2].RemovedRegisteredAddresses()
	if before != after {
		return true, fmt.Sprintf("block 2 served as removed=%v hash %s.., later as removed=%v hash %s..", rb, before[:8], ra, after[:8])
	}
	return false, "block 2 unchanged"
}

// ---- D4b: three removals in one block: one address survives (derived state != replay)
func d4b() (bool, string) {
	s := settings()
	w0 := node.NewWallet(0)
	n, _ := boot("n", s, w0, 1)
	n.Reg.Update([]string{"P", "Q", "R"}, nil)
	n.Humans.Set([]string{"P", "Q", "R"}, nil)
	n.Reg.Synchronize(0)
	n.Pool.Validate(T0 + 2*s.Interval)
	listed := append([]string(nil), n.AllBlocks()[2].RemovedRegisteredAddresses()...)
	n.Pool.Validate(T0 + 3*s.Interval)
	var still []string
	for _, a := range listed {
		if n.Reg.IsRegistered(a) {
			still = append(still, a)
		}
	}
	if len(still) > 0 {
		return true, fmt.Sprintf("block 2 listed %v as removed; after it was confirmed %v is still registered", listed, still)
	}
	return false, "all listed addresses were removed"
}

// ---- D4c: verifying a candidate on a copy edits the live pending-removal list
func d4c() (bool, string) {
	s := settings()
	w0 := node.NewWallet(0)
	n, _ := boot("n", s, w0, 1)
	n.Reg.Update([]string{"P", "Q"}, nil)
	n.Humans.Set([]string{"P", "Q"}, nil)
	n.Reg.Synchronize(0)
	before := fmt.Sprint(n.Reg.VerifPendingRemovals())
	c := n.Reg.Copy()
	c.Update(nil, []string{"P"})
	after := fmt.Sprint(n.Reg.VerifPendingRemovals())
	if before != after {
		return true, "pending list " + before + " became " + after + " after an update on a copy"
	}
	return false, "pending list unchanged"
}

// ---- D5: goroutine left behind per failing neighbour
func d5() (bool, string) {
	s := settings()
	w0 := node.NewWallet(0)
	n, _ := boot("n", s, w0, 3)
	bad := &node.Sender{TargetValue: "bad", Blocks: func(uint64) ([]byte, error) { return nil, fmt.Errorf("boom") }}
	n.Senders.Set([]application.Sender{bad})
	time.Sleep(50 * time.Millisecond)
	base := runtime.NumGoroutine()
	for i := 0; i < 5; i++ {
		n.Chain.Update(T0 + 3*s.Interval)
	}
	time.Sleep(300 * time.Millisecond)
	now := runtime.NumGoroutine()
	if now > base {
		return true, fmt.Sprintf("goroutines %d -> %d after 5 rounds with one failing neighbour", base, now)
	}
	return false, fmt.Sprintf("goroutines %d -> %d", base, now)
}

// ---- D5b: goroutine left behind when a neighbour answers after the timeout
func d5b() (bool, string) {
	s := settings()
	s.Timeout = 30 * time.Millisecond
	w0 := node.NewWallet(0)
	n, _ := boot("n", s, w0, 3)
	release := make(chan struct{})
	slow := &node.Sender{TargetValue: "slow", Blocks: func(uint64) ([]byte, error) { <-release; return []byte("[]"), nil }}
	n.Senders.Set([]application.Sender{slow})
	time.Sleep(50 * time.Millisecond)
	base := runtime.NumGoroutine()
	for i := 0; i < 3; i++ {
		n.Chain.Update(T0 + 3*s.Interval)
	}
	close(release)
	time.Sleep(300 * time.Millisecond)
	now := runtime.NumGoroutine()
	if now > base {
		return true, fmt.Sprintf("goroutines %d -> %d after 3 rounds with one late neighbour (answered after the timeout)", base, now)
	}
	return false, fmt.Sprintf("goroutines %d -> %d", base, now)
}

// ---- D6a: null transaction entry in a served block
func d6a() (p bool, d string) {
	defer recoverTo(&p, &d)
	s := settings()
	w0 := node.NewWallet(0)
	n, _ := boot("n", s, w0, 3)
	b := n.AllBlocks()
	prev, _ := b[3].Hash()
	evil := fmt.Sprintf(`[%s,{"previous_hash":%s,"added_registered_addresses":null,"removed_registered_addresses":null,"timestamp":%d,"transactions":[null]}]`,
		mustJSON(b[3]), mustJSON(prev), T0+4*s.Interval)
	n.Senders.Set([]application.Sender{&node.Sender{TargetValue: "evil", Blocks: func(uint64) ([]byte, error) { return []byte(evil), nil }}})
	n.Chain.Update(T0 + 4*s.Interval)
	return false, "no panic"
}

// ---- D6d: null block entry in a served chain
func d6d() (p bool, d string) {
	defer recoverTo(&p, &d)
	s := settings()
	w0 := node.NewWallet(0)
	n, _ := boot("n", s, w0, 3)
	for _, evil := range []string{"[null]", "[null,null]"} {
		evil := evil
		n.Senders.Set([]application.Sender{&node.Sender{TargetValue: "evil", Blocks: func(uint64) ([]byte, error) { return []byte(evil), nil }}})
		n.Chain.Update(T0 + 4*s.Interval)
	}
	return false, "no panic"
}

func mustJSON(v interface{}) string {
	b, err := json.Marshal(v)
	if err != nil {
		panic(err)
	}
	return string(b)
}

// ---- D6b: signed transaction with inputs and no outputs is admitted; the next tick panics
func d6b() (p bool, d string) {
	defer recoverTo(&p, &d)
	s := settings()
	w0 := node.NewWallet(0)
	n, gid := boot("n", s, w0, 1)
	last := T0 + s.Interval
	raw := &node.RawTx{Timestamp: last, Inputs: []node.RawInput{{0, gid, w0.PubHex, w0.Sign(0, gid)}}, Outputs: []node.RawOutput{}}
	tx, err := raw.Seal()
	if err != nil {
		return false, "rejected at decode: " + err.Error()
	}
	n.Pool.AddTransaction(tx, "", "")
	adm := len(n.Pool.Transactions())
	n.Pool.Validate(last + s.Interval)
	return false, fmt.Sprintf("no panic (admitted=%d)", adm)
}

// ---- D6c: null transaction request kills the handler goroutine (child process)
func d6c() (bool, string) {
	s := settings()
	w0 := node.NewWallet(0)
	n, _ := boot("n", s, w0, 1)
	c := payment.NewTransactionsController(n.Senders, n.Pool)
	for _, body := range []string{`null`, `{"Transaction":null,"TransactionBroadcasterTarget":""}`, `{}`} {
		func() {
			defer func() { _ = recover() }()
			_, _ = c.HandleTransactionRequest(context.Background(), gp2p.Data{Bytes: []byte(body)})
		}()
	}
	time.Sleep(200 * time.Millisecond)
	return false, "process survived"
}

// ---- D7: AddressesRegistry.Synchronize || Copy deadlock (child process)
func d7() (bool, string) {
	s := settings()
	w0 := node.NewWallet(0)
	n, _ := boot("n", s, w0, 1)
	n.Reg.Update([]string{"P", "Q"}, nil)
	done := make(chan int, 2)
	go func() {
		for i := 0; i < 20000; i++ {
			n.Reg.Synchronize(0)
		}
		done <- 1
	}()
	go func() {
		for i := 0; i < 20000; i++ {
			_ = n.Reg.Copy()
		}
		done <- 2
	}()
	deadline := time.After(8 * time.Second)
	for k := 0; k < 2; k++ {
		select {
		case <-done:
		case <-deadline:
			return true, "Synchronize and Copy running concurrently made no progress for 8 s (lock-order inversion)"
		}
	}
	return false, "both loops completed"
}

var witnesses = []witness{
	{"D1", "C01", "C01/fee-sum-wraps-uint64", d1, false},
	{"D10", "C01", "C01/genesis-minted-again-after-adopting-chain-dated-zero", d10, false},
	{"D1b", "C01", "C01/recreated-id-valued-as-old-instance", d1b, false},
	{"D12", "C07", "C07/output-65536-listed-under-the-reference-of-output-0", d12, false},
	{"D11", "C04", "C04/chain-dated-across-the-int64-wrap-adopted", d11, false},
	{"D3", "C05", "C05/competitor-tip/yield-to-address-removed-by-previous-block", d3, false},
	{"D9", "C11", "C11/same-output-twice-admitted", d9, false},
	{"D2", "C05", "C05/producer-includes-spend-of-last-block-output", d2, false},
	{"D4a", "C12", "C12/chained-block-mutated-through-shared-removal-slice", d4a, false},
	{"D4b", "C07", "C07/three-removals-one-survives", d4b, false},
	{"D4c", "C13", "C13/update-on-registry-copy-edits-live-pending-list", d4c, false},
	{"D5", "C13", "C13/goroutine-leak-on-failing-neighbour", d5, false},
	{"D5b", "C13", "C13/goroutine-leak-on-late-neighbour", d5b, false},
	{"D6a", "C14", "C14/null-transaction-in-served-block-panics-update", d6a, false},
	{"D6d", "C14", "C14/null-block-in-served-chain-panics-update", d6d, false},
	{"D6b", "C14", "C14/transaction-without-outputs-panics-next-tick", d6b, false},
	{"D6c", "C14", "C14/null-transaction-request-kills-process", d6c, true},
	{"D7", "C16", "C16/deadlock-addresses-registry-synchronize-copy", d7, true},
}

func main() {
	only := flag.String("only", "", "comma separated witness ids or property ids (default all)")
	child := flag.String("child", "", "internal")
	flag.Parse()
	if *child != "" {
		for _, w := range witnesses {
			if w.id == *child {
				rep, det := w.run()
				_ = json.NewEncoder(os.Stdout).Encode(result{w.id, w.property, w.signature, rep, det})
				return
			}
		}
		os.Exit(3)
	}
	sel := map[string]bool{}
	for _, x := range strings.Split(*only, ",") {
		if x != "" {
			sel[x] = true
		}
	}
	enc := json.NewEncoder(os.Stdout)
	for _, w := range witnesses {
		if len(sel) > 0 && !sel[w.id] && !sel[w.property] {
			continue
		}
		if !w.child {
			rep, det := w.run()
			_ = enc.Encode(result{w.id, w.property, w.signature, rep, det})
			continue
		}
		ctx, cancel := context.WithTimeout(context.Background(), 30*time.Second)
		out, err := exec.CommandContext(ctx, os.Args[0], "--child", w.id).CombinedOutput()
		cancel()
		var r result
		lines := strings.Split(strings.TrimSpace(string(out)), "\n")
		if err == nil && json.Unmarshal([]byte(lines[len(lines)-1]), &r) == nil {
			_ = enc.Encode(r)
		} else {
			msg := strings.TrimSpace(string(out))
			if len(msg) > 300 {
				msg = msg[:300]
			}
			_ = enc.Encode(result{w.id, w.property, w.signature, true, fmt.Sprintf("child process died: %v: %s", err, msg)})
		}
	}
}
