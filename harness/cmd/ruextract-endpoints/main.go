// ruextract-endpoints reads the CURRENT sources of the validator's p2p layer and emits the tables the
// theorem C15_endpoints is decided over (lean/codec/Codec/GenEndpoints.lean):
//
//	endpointConsts   const XEndpoint = "…"                          infrastructure/p2p/neighbor.go
//	clientMethods    (*Neighbor).M → endpoint constant + payload kind  infrastructure/p2p/neighbor.go
//	serverBindings   server.SetHandleX(p2p.YEndpoint)                presentation/node.go
//	hostBindings     (*Host).SetHandleX → controller.HandleZ         presentation/api/host.go
//	handlerPayloads  HandleZ → what it reads from the request         presentation/api/*/*_controller.go
//
// go/ast + stdlib only.  Fail-closed: any construct in an anchored function that is not understood is an
// error (exit 2), never skipped.
package main

import (
	"flag"
	"fmt"
	"go/ast"
	"go/parser"
	"go/token"
	"go/types"
	"os"
	"path/filepath"
	"sort"
	"strconv"
	"strings"
)

var fset = token.NewFileSet()

func die(format string, a ...interface{}) {
	fmt.Fprintf(os.Stderr, "ruextract-endpoints: "+format+"\n", a...)
	os.Exit(2)
}

func parse(path string) *ast.File {
	f, err := parser.ParseFile(fset, path, nil, 0)
	if err != nil {
		die("%v", err)
	}
	return f
}

func pos(n ast.Node) string { return fset.Position(n.Pos()).String() }

func expr(e ast.Expr) string { return types.ExprString(e) }

type pair struct{ a, b string }
type triple struct{ a, b, c string }

// selector "x.y" → (x, y)
func sel(e ast.Expr) (string, string, bool) {
	s, ok := e.(*ast.SelectorExpr)
	if !ok {
		return "", "", false
	}
	id, ok := s.X.(*ast.Ident)
	if !ok {
		return "", "", false
	}
	return id.Name, s.Sel.Name, true
}

func recvName(fd *ast.FuncDecl) (name, typ string) {
	if fd.Recv == nil || len(fd.Recv.List) != 1 {
		return "", ""
	}
	f := fd.Recv.List[0]
	if len(f.Names) == 1 {
		name = f.Names[0].Name
	}
	t := f.Type
	if st, ok := t.(*ast.StarExpr); ok {
		t = st.X
	}
	if id, ok := t.(*ast.Ident); ok {
		typ = id.Name
	}
	return
}

func paramType(fd *ast.FuncDecl, name string) string {
	for _, f := range fd.Type.Params.List {
		for _, n := range f.Names {
			if n.Name == name {
				return expr(f.Type)
			}
		}
	}
	return ""
}

// ---------------------------------------------------------------- neighbor.go

func neighbor(path string) (consts []pair, methods []triple) {
	f := parse(path)
	for _, d := range f.Decls {
		gd, ok := d.(*ast.GenDecl)
		if !ok || gd.Tok != token.CONST {
			continue
		}
		for _, s := range gd.Specs {
			vs := s.(*ast.ValueSpec)
			for i, n := range vs.Names {
				if !strings.HasSuffix(n.Name, "Endpoint") {
					continue
				}
				if i >= len(vs.Values) {
					die("%s: endpoint constant %s has no literal value", pos(vs), n.Name)
				}
				lit, ok := vs.Values[i].(*ast.BasicLit)
				if !ok || lit.Kind != token.STRING {
					die("%s: endpoint constant %s is not a string literal", pos(vs), n.Name)
				}
				v, err := strconv.Unquote(lit.Value)
				if err != nil {
					die("%s: %v", pos(lit), err)
				}
				consts = append(consts, pair{n.Name, v})
			}
		}
	}
	if len(consts) == 0 {
		die("%s: no endpoint constants found", path)
	}
	sawSendRequest, sawSendRequestBytes := false, false
	for _, d := range f.Decls {
		fd, ok := d.(*ast.FuncDecl)
		if !ok {
			continue
		}
		rn, rt := recvName(fd)
		if rt != "Neighbor" {
			continue
		}
		switch fd.Name.Name {
		case "sendRequest":
			// bytes, err := json.Marshal(request); …; return neighbor.sendRequestBytes(topic, bytes)
			src := nodeText(fd)
			if !strings.Contains(src, "json.Marshal(request)") || !strings.Contains(src, rn+".sendRequestBytes(topic, bytes)") {
				die("%s: sendRequest no longer has the shape json.Marshal(request) → sendRequestBytes(topic, bytes)", pos(fd))
			}
			sawSendRequest = true
			continue
		case "sendRequestBytes":
			src := nodeText(fd)
			if !strings.Contains(src, rn+".Client.Send(topic, gp2p.Data{Bytes: request})") {
				die("%s: sendRequestBytes no longer sends gp2p.Data{Bytes: request} to topic", pos(fd))
			}
			sawSendRequestBytes = true
			continue
		}
		var found []triple
		ast.Inspect(fd.Body, func(n ast.Node) bool {
			call, ok := n.(*ast.CallExpr)
			if !ok {
				return true
			}
			x, m, ok := sel(call.Fun)
			if !ok {
				// neighbor.Client.Send(...) directly from a method: not understood
				if strings.Contains(expr(call.Fun), ".Send") {
					die("%s: direct Send call in %s", pos(call), fd.Name.Name)
				}
				return true
			}
			if x != rn || (m != "sendRequest" && m != "sendRequestBytes") {
				return true
			}
			if len(call.Args) != 2 {
				die("%s: %s with %d arguments", pos(call), m, len(call.Args))
			}
			ep, ok := call.Args[0].(*ast.Ident)
			if !ok {
				die("%s: endpoint argument of %s is not a constant name: %s", pos(call), m, expr(call.Args[0]))
			}
			kind := ""
			switch a := call.Args[1].(type) {
			case *ast.Ident:
				t := paramType(fd, a.Name)
				if t == "" {
					die("%s: payload %s of %s is not a parameter", pos(call), a.Name, fd.Name.Name)
				}
				if m == "sendRequest" {
					kind = "json:" + t
				} else {
					if t != "[]byte" {
						die("%s: raw payload of type %s", pos(call), t)
					}
					kind = "bytes"
				}
			case *ast.CompositeLit:
				if m != "sendRequestBytes" || expr(a.Type) != "[]byte" || len(a.Elts) != 0 {
					die("%s: payload literal not understood: %s", pos(call), expr(a))
				}
				kind = "empty"
			default:
				die("%s: payload expression not understood: %s", pos(call), expr(call.Args[1]))
			}
			found = append(found, triple{fd.Name.Name, ep.Name, kind})
			return true
		})
		if len(found) > 1 {
			die("%s: method %s sends more than one request", pos(fd), fd.Name.Name)
		}
		methods = append(methods, found...)
	}
	if !sawSendRequest || !sawSendRequestBytes {
		die("%s: sendRequest / sendRequestBytes not found", path)
	}
	return
}

func nodeText(n ast.Node) string {
	b, err := os.ReadFile(fset.Position(n.Pos()).Filename)
	if err != nil {
		die("%v", err)
	}
	return string(b[fset.Position(n.Pos()).Offset:fset.Position(n.End()).Offset])
}

// ---------------------------------------------------------------- node.go

func serverBindings(path string) (res []pair) {
	f := parse(path)
	var fn *ast.FuncDecl
	for _, d := range f.Decls {
		if fd, ok := d.(*ast.FuncDecl); ok && fd.Name.Name == "NewNode" {
			fn = fd
		}
	}
	if fn == nil {
		die("%s: NewNode not found", path)
	}
	for _, st := range fn.Body.List {
		switch s := st.(type) {
		case *ast.ExprStmt:
			call, ok := s.X.(*ast.CallExpr)
			if !ok {
				die("%s: statement not understood", pos(s))
			}
			x, m, ok := sel(call.Fun)
			if !ok || x != "server" || !strings.HasPrefix(m, "SetHandle") || len(call.Args) != 1 {
				die("%s: call not understood: %s", pos(call), expr(call))
			}
			px, c, ok := sel(call.Args[0])
			if !ok || px != "p2p" {
				die("%s: endpoint argument is not a p2p constant: %s", pos(call), expr(call.Args[0]))
			}
			res = append(res, pair{m, c})
		case *ast.ReturnStmt:
		default:
			die("%s: statement not understood in NewNode", pos(st))
		}
	}
	return
}

// ---------------------------------------------------------------- host.go

func hostBindings(path string) (res []triple) {
	f := parse(path)
	for _, d := range f.Decls {
		fd, ok := d.(*ast.FuncDecl)
		if !ok {
			continue
		}
		rn, rt := recvName(fd)
		if rt != "Host" || !strings.HasPrefix(fd.Name.Name, "SetHandle") {
			continue
		}
		if len(fd.Type.Params.List) != 1 || len(fd.Type.Params.List[0].Names) != 1 || len(fd.Body.List) != 1 {
			die("%s: %s not understood", pos(fd), fd.Name.Name)
		}
		param := fd.Type.Params.List[0].Names[0].Name
		es, ok := fd.Body.List[0].(*ast.ExprStmt)
		if !ok {
			die("%s: %s not understood", pos(fd), fd.Name.Name)
		}
		call, ok := es.X.(*ast.CallExpr)
		if !ok || expr(call.Fun) != rn+".SetHandle" || len(call.Args) != 2 || expr(call.Args[0]) != param {
			die("%s: %s does not call %s.SetHandle(%s, …)", pos(fd), fd.Name.Name, rn, param)
		}
		h, ok := call.Args[1].(*ast.SelectorExpr)
		if !ok {
			die("%s: handler expression not understood: %s", pos(call), expr(call.Args[1]))
		}
		hx, ctl, ok := sel(h.X)
		if !ok || hx != rn {
			die("%s: handler expression not understood: %s", pos(call), expr(call.Args[1]))
		}
		res = append(res, triple{fd.Name.Name, ctl, h.Sel.Name})
	}
	if len(res) == 0 {
		die("%s: no SetHandle* methods found", path)
	}
	return
}

// ---------------------------------------------------------------- controllers

func handlerPayloads(dir string) (res []pair) {
	files, _ := filepath.Glob(filepath.Join(dir, "*", "*_controller.go"))
	sort.Strings(files)
	if len(files) == 0 {
		die("%s: no controllers found", dir)
	}
	for _, path := range files {
		f := parse(path)
		for _, d := range f.Decls {
			fd, ok := d.(*ast.FuncDecl)
			if !ok || fd.Recv == nil || !strings.HasPrefix(fd.Name.Name, "Handle") {
				continue
			}
			ps := fd.Type.Params.List
			if len(ps) != 2 || len(ps[1].Names) != 1 || expr(ps[1].Type) != "gp2p.Data" {
				die("%s: handler %s does not take (context, gp2p.Data)", pos(fd), fd.Name.Name)
			}
			req := ps[1].Names[0].Name
			if req == "_" {
				res = append(res, pair{fd.Name.Name, "ignored"})
				continue
			}
			vars := map[string]string{}
			bytesVar := ""
			kind := ""
			ast.Inspect(fd.Body, func(n ast.Node) bool {
				switch x := n.(type) {
				case *ast.GenDecl:
					if x.Tok == token.VAR {
						for _, s := range x.Specs {
							vs := s.(*ast.ValueSpec)
							if vs.Type != nil {
								for _, nm := range vs.Names {
									vars[nm.Name] = expr(vs.Type)
								}
							}
						}
					}
				case *ast.AssignStmt:
					if len(x.Lhs) == 1 && len(x.Rhs) == 1 && expr(x.Rhs[0]) == req+".GetBytes()" {
						bytesVar = expr(x.Lhs[0])
					}
				case *ast.CallExpr:
					if expr(x.Fun) == "json.Unmarshal" && len(x.Args) == 2 {
						if expr(x.Args[0]) != bytesVar {
							die("%s: json.Unmarshal does not read the request bytes", pos(x))
						}
						u, ok := x.Args[1].(*ast.UnaryExpr)
						if !ok || u.Op != token.AND {
							die("%s: json.Unmarshal target not understood", pos(x))
						}
						t, ok := vars[expr(u.X)]
						if !ok {
							die("%s: type of %s unknown", pos(x), expr(u.X))
						}
						if kind != "" {
							die("%s: second json.Unmarshal in %s", pos(x), fd.Name.Name)
						}
						kind = "json:" + t
					}
				}
				return true
			})
			if kind == "" {
				die("%s: handler %s names its request but does not unmarshal it", pos(fd), fd.Name.Name)
			}
			res = append(res, pair{fd.Name.Name, kind})
		}
	}
	return
}

// ---------------------------------------------------------------- emit

func q(s string) string { return strconv.Quote(s) }

func main() {
	repo := flag.String("repo", "/repo", "source tree")
	out := flag.String("out", "", "output file (default stdout)")
	flag.Parse()
	v := filepath.Join(*repo, "validatornode")
	consts, methods := neighbor(filepath.Join(v, "infrastructure", "p2p", "neighbor.go"))
	sb := serverBindings(filepath.Join(v, "presentation", "node.go"))
	hb := hostBindings(filepath.Join(v, "presentation", "api", "host.go"))
	hp := handlerPayloads(filepath.Join(v, "presentation", "api"))

	var b strings.Builder
	b.WriteString("/-\n  GENERATED by harness/cmd/ruextract-endpoints from validatornode/infrastructure/p2p/neighbor.go,\n")
	b.WriteString("  validatornode/presentation/node.go, validatornode/presentation/api/host.go and the controllers.\n")
	b.WriteString("  Do not edit: regenerated by engines/codec.py before every build.\n-/\nnamespace Codec.Gen\n\n")
	b.WriteString("/-- `const XEndpoint = \"…\"` (neighbor.go), in source order -/\ndef endpointConsts : List (String × String) := [\n")
	for i, c := range consts {
		fmt.Fprintf(&b, "  (%s, %s)%s\n", q(c.a), q(c.b), comma(i, len(consts)))
	}
	b.WriteString("]\n\n/-- client method of `*Neighbor` ↦ endpoint constant, payload kind\n(`json:T` = json.Marshal of a `T`, `bytes` = the caller's bytes as they are, `empty` = no payload) -/\n")
	b.WriteString("def clientMethods : List (String × String × String) := [\n")
	for i, m := range methods {
		fmt.Fprintf(&b, "  (%s, %s, %s)%s\n", q(m.a), q(m.b), q(m.c), comma(i, len(methods)))
	}
	b.WriteString("]\n\n/-- `server.SetHandleX(p2p.YEndpoint)` in presentation.NewNode -/\ndef serverBindings : List (String × String) := [\n")
	for i, c := range sb {
		fmt.Fprintf(&b, "  (%s, %s)%s\n", q(c.a), q(c.b), comma(i, len(sb)))
	}
	b.WriteString("]\n\n/-- `(*Host).SetHandleX(endpoint)` ↦ controller field, handler method (api/host.go) -/\n")
	b.WriteString("def hostBindings : List (String × String × String) := [\n")
	for i, m := range hb {
		fmt.Fprintf(&b, "  (%s, %s, %s)%s\n", q(m.a), q(m.b), q(m.c), comma(i, len(hb)))
	}
	b.WriteString("]\n\n/-- handler method ↦ what it reads from the request (`json:T` = json.Unmarshal into a `T`, `ignored`) -/\n")
	b.WriteString("def handlerPayloads : List (String × String) := [\n")
	for i, c := range hp {
		fmt.Fprintf(&b, "  (%s, %s)%s\n", q(c.a), q(c.b), comma(i, len(hp)))
	}
	b.WriteString("]\n\nend Codec.Gen\n")
	if *out == "" {
		fmt.Print(b.String())
		return
	}
	if err := os.WriteFile(*out, []byte(b.String()), 0o644); err != nil {
		die("%v", err)
	}
}

func comma(i, n int) string {
	if i+1 < n {
		return ","
	}
	return ""
}
