package main

// Execution of one case against the REAL code and comparison with the Lean model.

import (
	"bytes"
	"encoding/hex"
	"encoding/json"
	"fmt"
	"math/rand"
	"reflect"
	"runtime"
	"runtime/debug"
	"strings"
	"time"

	"github.com/my-cloud/ruthenium/validatornode/application"
	"github.com/my-cloud/ruthenium/validatornode/application/network"
	"github.com/my-cloud/ruthenium/validatornode/domain/ledger"

	"ruverif/internal/node"
)

type pstep struct {
	Key string `json:"k,omitempty"`
	Idx int    `json:"i"`
}

type caseSpec struct {
	Kind    string  `json:"kind"`             // dec | handler | access
	Schema  string  `json:"schema"`           // wire type (dec) or message schema (handler, access)
	Mode    string  `json:"mode,omitempty"`   // dec: whole | first
	Path    []pstep `json:"path,omitempty"`   // position of the fault
	Pos     string  `json:"pos,omitempty"`    // schema position (label)
	Fault   string  `json:"fault,omitempty"`  // fault kind; "" = the valid base message
	MutSeed int64   `json:"mut_seed,omitempty"`
	MsgHex  string  `json:"msg,omitempty"`    // explicit message bytes (dec cases; "-" = empty)
	Variant string  `json:"variant,omitempty"`
	Expect  string  `json:"expect,omitempty"` // fidelity cases: the decoders must accept
}

type failure struct {
	Kind       string                 `json:"kind"`
	Signature  string                 `json:"signature"`
	Detail     string                 `json:"detail"`
	Replay     map[string]interface{} `json:"replay"`
	FoundInput bool                   `json:"found_input"`
}

type caseResult struct {
	Impl     string    `json:"impl"`
	Model    string    `json:"model"`
	Note     string    `json:"note,omitempty"`
	Key      string    `json:"key,omitempty"` // distinctness key of a non-trivial case ("" = trivial)
	Obs      []string  `json:"obs,omitempty"`
	Failures []failure `json:"failures,omitempty"`
	Sent     string    `json:"sent,omitempty"` // hex of the message delivered
	Compared int       `json:"compared"`
}

func (c *caseSpec) path() path {
	var p path
	for _, s := range c.Path {
		if s.Key != "" || s.Idx < 0 {
			p = append(p, step{key: s.Key, idx: -1})
		} else {
			p = append(p, step{idx: s.Idx})
		}
	}
	return p
}

func toPsteps(p path) []pstep {
	var r []pstep
	for _, s := range p {
		if s.idx < 0 {
			r = append(r, pstep{Key: s.key, Idx: -1})
		} else {
			r = append(r, pstep{Idx: s.idx})
		}
	}
	return r
}

func (c *caseSpec) label() string {
	f := c.Fault
	if f == "" {
		f = "valid"
	}
	if c.MutSeed != 0 {
		f = "mutation"
	}
	pos := c.Pos
	if pos == "" {
		pos = "$"
	}
	return c.Schema + "/" + pos + "/" + f
}

var propId = "C14"

func (c *caseSpec) fail(r *caseResult, what, detail string, sent []byte) {
	spec := *c
	replay := map[string]interface{}{"tool": "ruwire", "case": spec, "message_hex": hx(sent), "message_text": printable(sent),
		"followup_ops": []string{"admit a valid transaction", "Validate tick", "fresh peer syncs from the node", "blocks/utxos/transactions/first-block-timestamp queries"}}
	r.Failures = append(r.Failures, failure{Kind: "diff", Signature: propId + "/" + what + "/" + c.label(), Detail: detail, Replay: replay, FoundInput: true})
}

func printable(b []byte) string {
	if len(b) > 1500 {
		b = b[:1500]
	}
	return strings.ToValidUTF8(string(b), "�")
}

// ---------------------------------------------------------------- the real decoders

type decOut struct {
	class   string
	panicAt string
	isNil   bool
	enc     []byte
	ids     []string
	rewards []bool
	hashes  []string
	stable  bool
}

func unmarshalWith(mode string, b []byte, v interface{}) error {
	if mode == "first" {
		return json.NewDecoder(bytes.NewReader(b)).Decode(v)
	}
	return json.Unmarshal(b, v)
}

func txFacts(o *decOut, txs []*ledger.Transaction) {
	for _, t := range txs {
		if t == nil {
			continue
		}
		o.ids = append(o.ids, t.Id())
		o.rewards = append(o.rewards, t.HasReward())
	}
}

func blockFacts(o *decOut, bs []*ledger.Block) {
	for _, b := range bs {
		if b == nil {
			continue
		}
		txFacts(o, b.Transactions())
		o.hashes = append(o.hashes, node.HashHex(b))
	}
}

// realDecode runs the real decoder of a wire type; when it accepts, the value is re-encoded, and the
// re-encoding decoded and encoded again (stable: same bytes and same derived reward flags).
func realDecode(typ, mode string, b []byte) (o decOut) {
	defer func() {
		if r := recover(); r != nil {
			o = decOut{class: "panic", panicAt: fmt.Sprintf("%v\n%s", r, debug.Stack())}
		}
	}()
	once := func(mode string, b []byte) (o decOut, err error) {
		marshal := func(v interface{}) {
			e, merr := json.Marshal(v)
			if merr != nil {
				err = merr
			}
			o.enc = e
		}
		switch typ {
		case "output":
			var v *ledger.Output
			if err = unmarshalWith(mode, b, &v); err == nil {
				o.isNil = v == nil
				marshal(v)
			}
		case "inputinfo":
			var v *ledger.InputInfo
			if err = unmarshalWith(mode, b, &v); err == nil {
				o.isNil = v == nil
				marshal(v)
			}
		case "input":
			var v *ledger.Input
			if err = unmarshalWith(mode, b, &v); err == nil {
				o.isNil = v == nil
				marshal(v)
			}
		case "utxo":
			var v *ledger.Utxo
			if err = unmarshalWith(mode, b, &v); err == nil {
				o.isNil = v == nil
				marshal(v)
			}
		case "transaction":
			var v *ledger.Transaction
			if err = unmarshalWith(mode, b, &v); err == nil {
				o.isNil = v == nil
				marshal(v)
				txFacts(&o, []*ledger.Transaction{v})
			}
		case "block":
			var v *ledger.Block
			if err = unmarshalWith(mode, b, &v); err == nil {
				o.isNil = v == nil
				marshal(v)
				blockFacts(&o, []*ledger.Block{v})
			}
		case "request":
			var v *ledger.TransactionRequest
			if err = unmarshalWith(mode, b, &v); err == nil {
				o.isNil = v == nil
				marshal(v)
				if v != nil {
					txFacts(&o, []*ledger.Transaction{v.Transaction()})
				}
			}
		case "blocks":
			var v []*ledger.Block
			if err = unmarshalWith(mode, b, &v); err == nil {
				o.isNil = v == nil
				marshal(v)
				blockFacts(&o, v)
			}
		case "transactions":
			var v []*ledger.Transaction
			if err = unmarshalWith(mode, b, &v); err == nil {
				o.isNil = v == nil
				marshal(v)
				txFacts(&o, v)
			}
		case "utxos":
			var v []*ledger.Utxo
			if err = unmarshalWith(mode, b, &v); err == nil {
				o.isNil = v == nil
				marshal(v)
			}
		case "targets":
			var v []string
			if err = unmarshalWith(mode, b, &v); err == nil {
				o.isNil = v == nil
				marshal(v)
			}
		case "height":
			var v uint64
			if err = unmarshalWith(mode, b, &v); err == nil {
				marshal(v)
			}
		case "address":
			var v string
			if err = unmarshalWith(mode, b, &v); err == nil {
				marshal(v)
			}
		case "timestamp":
			var v int64
			if err = unmarshalWith(mode, b, &v); err == nil {
				marshal(v)
			}
		default:
			err = fmt.Errorf("unknown type %s", typ)
		}
		return
	}
	first, err := once(mode, b)
	if err != nil {
		return decOut{class: "err"}
	}
	first.class = "ok"
	again, err := once("whole", first.enc)
	first.stable = err == nil && bytes.Equal(again.enc, first.enc) && reflect.DeepEqual(again.rewards, first.rewards) &&
		reflect.DeepEqual(again.ids, first.ids) && again.isNil == first.isNil
	return first
}

func eqStrings(a, b []string) bool {
	if len(a) != len(b) {
		return false
	}
	for i := range a {
		if a[i] != b[i] {
			return false
		}
	}
	return true
}

func eqBools(a, b []bool) bool {
	if len(a) != len(b) {
		return false
	}
	for i := range a {
		if a[i] != b[i] {
			return false
		}
	}
	return true
}

// runDec: a message to a typed decoder, real vs model.
func runDec(c *caseSpec, d *driver) *caseResult {
	msg := unhexMsg(c.MsgHex)
	r := &caseResult{Sent: hx(msg)}
	impl := realDecode(c.Schema, c.Mode, msg)
	r.Impl = impl.class
	m, err := d.ask("dec:"+c.Schema+":"+c.Mode, msg)
	if err != nil {
		c.fail(r, "driver-error", err.Error(), msg)
		return r
	}
	r.Model = m.Class
	r.Compared = 1
	if impl.class == "panic" {
		c.fail(r, "panic", "the real decoder panicked: "+impl.panicAt, msg)
	}
	if m.Class == "panic" {
		c.fail(r, "model-panic", "the model predicts a panic at "+m.Site, msg)
	}
	if impl.class != m.Class {
		c.fail(r, "class-mismatch", fmt.Sprintf("decoder outcome: implementation %s, model %s (%s)", impl.class, m.Class, m.Site), msg)
		return r
	}
	if c.Expect == "ok" && impl.class != "ok" {
		c.fail(r, "served-value-refused", "a value encoded by the real encoder is refused by the real decoder", msg)
	}
	if impl.class != "ok" {
		return r
	}
	if impl.isNil != m.Nil {
		c.fail(r, "nil-mismatch", fmt.Sprintf("nil result: implementation %v, model %v", impl.isNil, m.Nil), msg)
	}
	if string(impl.enc) != m.Enc {
		c.fail(r, "encoding-differs", fmt.Sprintf("re-encoding of the decoded value differs:\n impl  %s\n model %s", clip(string(impl.enc)), clip(m.Enc)), msg)
	}
	if !eqStrings(impl.ids, m.Ids) {
		c.fail(r, "id-differs", fmt.Sprintf("transaction ids: implementation %v, model %v", impl.ids, m.Ids), msg)
	}
	if !eqStrings(impl.ids, m.Computed) {
		c.fail(r, "computed-id-differs", fmt.Sprintf("ids computed by the model from its own rendering %v differ from the implementation's %v", m.Computed, impl.ids), msg)
	}
	if !eqBools(impl.rewards, m.Rewards) {
		c.fail(r, "reward-flag-differs", fmt.Sprintf("HasReward(): implementation %v, model %v", impl.rewards, m.Rewards), msg)
	}
	if !eqStrings(impl.hashes, m.Hashes) {
		c.fail(r, "hash-differs", fmt.Sprintf("block hashes: implementation %v, model %v", impl.hashes, m.Hashes), msg)
	}
	if impl.stable != m.Stable {
		c.fail(r, "stability-differs", fmt.Sprintf("decode∘encode∘decode = decode: implementation %v, model %v", impl.stable, m.Stable), msg)
	}
	if !impl.stable {
		r.Obs = append(r.Obs, "unstable-re-encoding/"+c.Schema+"/"+faultClass(c.Fault))
	}
	if c.Expect == "ok" && !impl.stable {
		c.fail(r, "served-value-unstable", "re-encoding a decoded served value is not byte-stable", msg)
	}
	r.Key = c.Schema + "|" + m.Enc
	return r
}

func clip(s string) string {
	if len(s) > 400 {
		return s[:400] + "…"
	}
	return s
}

func unhexMsg(h string) []byte {
	if h == "" || h == "-" {
		return []byte{}
	}
	b, err := hex.DecodeString(h)
	if err != nil {
		return []byte{}
	}
	return b
}

// ---------------------------------------------------------------- handler cases

type snapshot struct {
	Chain      []string
	Pool       []string
	ById       []node.ObsEntry
	ByAddr     []node.ObsEntry
	Registered []string
	Pending    []string
}

func snap(n *node.Node) (s snapshot, log []string) {
	log = n.Log.Snapshot()
	o, _, _ := n.Observe() // drains the log
	return snapshot{o.Chain, o.Pool, o.ById, o.ByAddr, o.Registered, o.Pending}, log
}

func sameState(a, b snapshot) bool {
	x, _ := json.Marshal(a)
	y, _ := json.Marshal(b)
	return bytes.Equal(x, y)
}

// derive builds the message of a handler/access case on this world.
func derive(w *world, c *caseSpec) (msg []byte, base *baseMsg, err error) {
	base, err = w.baseMessage(c.Schema)
	if err != nil {
		return nil, nil, err
	}
	root := base.v
	if c.Fault == "own-target" {
		return []byte(c.Variant), base, nil
	}
	if c.Fault != "" && c.Fault != "delivery" {
		res, whole, ok := applyFault(root, c.path(), c.Fault)
		if !ok {
			return nil, nil, fmt.Errorf("fault %s does not apply at %s", c.Fault, c.path())
		}
		if res == nil {
			return whole, base, nil
		}
		fixUp(c.Schema, res, c.path(), c.Fault)
		root = res
	}
	msg = root.bytes()
	if c.MutSeed != 0 {
		msg = mutateBytes(rand.New(rand.NewSource(c.MutSeed)), msg)
	}
	return msg, base, nil
}

type creatorFunc func(ip, port string) (application.Sender, error)

func (f creatorFunc) CreateSender(ip string, port string) (application.Sender, error) { return f(ip, port) }

func guarded(f func()) (panicked string) {
	defer func() {
		if r := recover(); r != nil {
			panicked = fmt.Sprintf("%v\n%s", r, debug.Stack())
		}
	}()
	f()
	return ""
}

// followUps: the operations that later touch the stored data.
func followUps(w *world) (panicked string, notes []string) {
	n := w.n
	panicked = guarded(func() {
		last := w.last()
		tx, err := w.otherTx(last)
		if err != nil {
			notes = append(notes, "followup build: "+err.Error())
		} else {
			n.Pool.AddTransaction(tx, "127.0.0.1:7010", n.Name)
		}
		n.Pool.Validate(last + w.s.Interval)
		// a fresh honest peer pulls the whole chain from this node and verifies it
		p, _ := newNode("127.0.0.1:7005", w.s, w.w1.Address)
		p.Pool.Validate(T0)
		p.Senders.Set([]application.Sender{serve(n)})
		p.Chain.Update(w.last())
		hostChain, peerChain := n.AllBlocks(), p.AllBlocks()
		if len(hostChain) != len(peerChain) || (len(hostChain) > 0 && node.HashHex(hostChain[len(hostChain)-1]) != node.HashHex(peerChain[len(peerChain)-1])) {
			notes = append(notes, fmt.Sprintf("peer-did-not-adopt: host %d blocks, peer %d: %v", len(hostChain), len(peerChain), tailOf(p.Log.Snapshot(), 3)))
		}
		for _, q := range [][]byte{[]byte("0"), []byte("2")} {
			if _, err := w.blocks.HandleBlocksRequest(bg, data(q)); err != nil {
				notes = append(notes, "blocks query: "+err.Error())
			}
		}
		if _, err := w.blocks.HandleFirstBlockTimestampRequest(bg, data(nil)); err != nil {
			notes = append(notes, "first block timestamp query: "+err.Error())
		}
		if _, err := w.txs.HandleTransactionsRequest(bg, data(nil)); err != nil {
			notes = append(notes, "transactions query: "+err.Error())
		}
		for _, wl := range []*node.Wallet{w.w0, w.w1, w.w2} {
			a, _ := json.Marshal(wl.Address)
			if _, err := w.utxos.HandleUtxosRequest(bg, data(a)); err != nil {
				notes = append(notes, "utxos query: "+err.Error())
			}
		}
	})
	return
}

func tailOf(l []string, k int) []string {
	if len(l) > k {
		return l[len(l)-k:]
	}
	return l
}

func runHandler(c *caseSpec, d *driver) *caseResult {
	r := &caseResult{}
	w, err := boot()
	if err != nil {
		c.fail(r, "harness-setup", err.Error(), nil)
		return r
	}
	msg, base, err := derive(w, c)
	if err != nil {
		r.Note = "skipped: " + err.Error()
		r.Impl, r.Model = "skip", "skip"
		return r
	}
	r.Sent = hx(msg)
	before, _ := snap(w.n)
	w.drainSignals()
	baseG := runtime.NumGoroutine()

	var implClass, implNote, signal string
	var logs []string
	var m *modelAns
	switch c.Schema {
	case "txreq", "txreq-reward":
		var herr error
		p := guarded(func() { _, herr = w.txs.HandleTransactionRequest(bg, data(msg)) })
		switch {
		case p != "":
			implClass, implNote = "panic", p
		case herr != nil:
			implClass = "err"
		default:
			implClass = "ok"
			s, hung := w.awaitAdd(baseG)
			signal = s
			if hung {
				c.fail(r, "hung", "the admission goroutine started by HandleTransactionRequest did not finish within 3 s", msg)
			}
		}
		m, err = d.ask("h:txreq", msg)
	case "blocksreq":
		var herr error
		p := guarded(func() { _, herr = w.blocks.HandleBlocksRequest(bg, data(msg)) })
		implClass = classOf(p, herr)
		implNote = p
		m, err = d.ask("h:blocks", msg)
	case "utxosreq":
		var herr error
		p := guarded(func() { _, herr = w.utxos.HandleUtxosRequest(bg, data(msg)) })
		implClass = classOf(p, herr)
		implNote = p
		m, err = d.ask("h:utxos", msg)
	case "targets":
		var herr error
		p := guarded(func() { _, herr = w.senders.HandleTargetsRequest(bg, data(msg)) })
		implClass = classOf(p, herr)
		implNote = p
		if implClass == "ok" {
			s, hung := w.awaitSignal("targets:")
			signal = s
			if hung {
				c.fail(r, "hung", "AddTargets was not called within 3 s after HandleTargetsRequest returned", msg)
			}
		}
		m, err = d.ask("h:targets", msg)
		// what the accepted targets do to a REAL Neighborhood at its next refresh round: the same list (when it decodes)
		// is given to network.Neighborhood.AddTargets, then Synchronize runs — with every peer reachable, and with every
		// peer unreachable; a panic there kills the clock-engine goroutine, hence the node
		var list []string
		if implClass == "ok" && json.Unmarshal(msg, &list) == nil {
			for _, reach := range []bool{true, false} {
				reach := reach
				nb := network.NewNeighborhood(creatorFunc(func(ip, port string) (application.Sender, error) {
					if !reach {
						return nil, fmt.Errorf("unreachable")
					}
					return &node.Sender{TargetValue: network.NewTarget(ip, port).Value(), Targets: func([]string) error { return nil }}, nil
				}), "127.0.0.1", "7001", 8, map[string]int{"127.0.0.1:7009": 0}, nil)
				if pp := guarded(func() {
					nb.Synchronize(0)
					nb.AddTargets(list)
					nb.Synchronize(0)
					nb.Synchronize(0)
				}); pp != "" {
					c.fail(r, "followup-panic", fmt.Sprintf("the accepted targets made the next neighbourhood refresh panic (peers reachable: %v): %s", reach, pp), msg)
				}
			}
		}
	case "update-ext", "update-full":
		ext := c.Schema == "update-ext"
		hostLen := uint64(len(w.n.AllBlocks()))
		if strings.HasPrefix(c.Variant, "late") {
			// the answer — valid, garbage or an error — is delivered after the node's timeout: the round must keep the
			// ledger, and the late delivery must neither crash the process (this case runs in a child: a panic in the
			// fetch goroutine kills it, reported as process-died) nor leave a goroutine behind
			late := &node.Sender{TargetValue: "127.0.0.1:7666", Blocks: func(h uint64) ([]byte, error) {
				time.Sleep(w.s.Timeout + 120*time.Millisecond)
				switch c.Variant {
				case "late-garbage":
					return []byte("[{\"transactions\":[null"), nil
				case "late-error":
					return nil, fmt.Errorf("connection reset")
				}
				return msg, nil
			}}
			w.n.Senders.Set([]application.Sender{late})
			p := guarded(func() { w.n.Chain.Update(base.now) })
			w.n.Senders.Set(nil)
			time.Sleep(w.s.Timeout + 400*time.Millisecond) // every late answer has been delivered by now
			after, _ := snap(w.n)
			r.Impl, r.Model = "kept", "kept"
			if p != "" {
				r.Impl = "panic"
				c.fail(r, "panic", "Update panicked with a late answer: "+p, msg)
			}
			if !sameState(before, after) {
				r.Impl = "changed"
				c.fail(r, "state-changed-by-late-answer", "an answer delivered after the timeout changed the ledger", msg)
			}
			if g := runtime.NumGoroutine(); g > baseG {
				time.Sleep(300 * time.Millisecond)
				if g = runtime.NumGoroutine(); g > baseG {
					c.fail(r, "goroutine-left-by-late-answer", fmt.Sprintf("goroutines %d -> %d after the late answer was delivered", baseG, g), msg)
				}
			}
			if fp, _ := followUps(w); fp != "" {
				c.fail(r, "followup-panic", "an operation after the late answer panicked: "+fp, msg)
			}
			r.Key = c.label() + "|" + r.Impl
			return r
		}
		evil := &node.Sender{TargetValue: "127.0.0.1:7666", Blocks: func(h uint64) ([]byte, error) {
			if (ext && h == hostLen-1) || (!ext && h == 0) {
				return msg, nil
			}
			return nil, fmt.Errorf("no blocks from height %d", h)
		}}
		w.n.Senders.Set([]application.Sender{evil})
		p := guarded(func() { w.n.Chain.Update(base.now) })
		w.n.Senders.Set(nil)
		logs = w.n.Log.Snapshot()
		implClass, implNote = updateClass(p, logs, ext)
		m, err = d.ask("h:update", msg, base.lastHost, base.oldHost)
	default:
		c.fail(r, "harness-setup", "unknown schema "+c.Schema, msg)
		return r
	}
	if err != nil {
		c.fail(r, "driver-error", err.Error(), msg)
		return r
	}
	after, _ := snap(w.n)
	r.Impl, r.Model, r.Compared = implClass, modelClass(m), 1
	compareHandler(c, r, w, msg, implClass, implNote, signal, m, before, after)

	if fp, notes := followUps(w); fp != "" {
		c.fail(r, "followup-panic", "an operation after the message panicked: "+fp, msg)
	} else {
		for _, nt := range notes {
			if strings.HasPrefix(nt, "peer-did-not-adopt") {
				c.fail(r, "stored-chain-refused-by-peer", nt, msg)
			} else {
				r.Obs = append(r.Obs, "followup: "+nt)
			}
		}
	}
	r.Key = c.label() + "|" + r.Impl + "|" + strings.Join(m.Calls, ";")
	return r
}

func classOf(p string, err error) string {
	if p != "" {
		return "panic"
	}
	if err != nil {
		return "err"
	}
	return "ok"
}

func modelClass(m *modelAns) string {
	if m.Class == "err" && !m.Parsed {
		return "err"
	}
	return m.Class
}

// updateClass reads the outcome of the neighbour's answer from the log of Blockchain.Update.
// ok: verify accepted the answer; err:decode | err:guard | err:ledger.
func updateClass(p string, logs []string, ext bool) (string, string) {
	if p != "" {
		return "panic", p
	}
	prefix := "failed to verify whole neighbor blocks"
	if ext {
		prefix = "failed to verify last neighbor blocks"
	}
	for _, l := range logs {
		if !strings.Contains(l, prefix) {
			continue
		}
		switch {
		case strings.Contains(l, "failed to get neighbor's blockchain"):
			return "err", "decode: " + l
		case strings.Contains(l, "contains a null block"), strings.Contains(l, "blockchain is too short"), strings.Contains(l, "blockchain is a fork"):
			return "err", "guard: " + l
		default:
			return "err", "ledger: " + l
		}
	}
	return "ok", ""
}

func compareHandler(c *caseSpec, r *caseResult, w *world, msg []byte, implClass, implNote, signal string, m *modelAns,
	before, after snapshot) {
	mc := modelClass(m)
	if implClass == "panic" {
		c.fail(r, "panic", "the real handler panicked: "+implNote, msg)
	}
	if mc == "panic" {
		c.fail(r, "model-panic", "the model predicts a panic at "+m.Site, msg)
	}
	changed := !sameState(before, after)
	switch c.Schema {
	case "update-ext", "update-full":
		// model err ⇔ the real answer was refused at decoding or by verify's guards; a model ok may still be
		// refused by the ledger rules (core layer), which is not the wire layer's business
		stage := ""
		if i := strings.Index(implNote, ":"); i > 0 && implClass == "err" {
			stage = implNote[:i]
		}
		switch {
		case mc == "err" && (implClass != "err" || stage == "ledger"):
			c.fail(r, "class-mismatch", fmt.Sprintf("model: refused at decoding/guards; implementation: %s %s", implClass, clip(implNote)), msg)
		case mc == "ok" && implClass == "err" && stage != "ledger":
			c.fail(r, "class-mismatch", fmt.Sprintf("model: accepted by decoding and guards; implementation: %s", clip(implNote)), msg)
		case mc == "ok" && implClass == "err":
			r.Obs = append(r.Obs, "ledger-refusal")
		}
		if implClass == "err" && changed {
			c.fail(r, "state-changed-on-error", "Update refused the neighbour's answer but the node's state changed", msg)
		}
		return
	}
	if implClass != mc {
		c.fail(r, "class-mismatch", fmt.Sprintf("handler outcome: implementation %s, model %s %s", implClass, mc, m.Site), msg)
		return
	}
	switch c.Schema {
	case "txreq", "txreq-reward":
		admitted := ""
		for _, call := range m.Calls {
			if strings.HasPrefix(call, "pool ") {
				admitted = call
			}
		}
		switch {
		case implClass == "err":
			if changed {
				c.fail(r, "state-changed-on-error", "the handler answered with an error but the node's state changed", msg)
			}
		case admitted == "":
			if changed || signal != "refused" {
				c.fail(r, "state-changed-on-ignored", fmt.Sprintf("model: the request is ignored (no transaction reaches the pool); implementation: state changed=%v signal=%q", changed, signal), msg)
			}
		default:
			f := strings.SplitN(admitted, " ", 3)
			id, target := f[1], ""
			if len(f) > 2 {
				target = f[2]
			}
			if changed {
				want := append(append([]string(nil), before.Pool...), id)
				rest := before
				rest.Pool = after.Pool
				if !eqStrings(after.Pool, want) || !sameState(rest, after) {
					c.fail(r, "unexpected-state-change", fmt.Sprintf("only the pool may gain %s; pool before %v after %v", id, before.Pool, after.Pool), msg)
				}
				if signal != "incentive:"+target {
					c.fail(r, "wrong-incentive", fmt.Sprintf("admitted, but the incentive went to %q instead of %q", signal, target), msg)
				}
				r.Obs = append(r.Obs, "admitted")
			} else {
				r.Obs = append(r.Obs, "pool-refusal")
			}
		}
	case "targets":
		if implClass == "ok" {
			want := ""
			for _, call := range m.Calls {
				if strings.HasPrefix(call, "addTargets ") {
					want = "targets:" + strings.TrimPrefix(call, "addTargets ")
				}
			}
			if signal != want {
				c.fail(r, "wrong-targets", fmt.Sprintf("AddTargets received %s, model %s", signal, want), msg)
			}
		}
		if changed {
			c.fail(r, "state-changed-on-error", "a targets request changed ledger state", msg)
		}
	default:
		if changed {
			c.fail(r, "state-changed-on-error", "a query changed ledger state", msg)
		}
	}
}
