package main

// An ordered JSON tree (keys keep order and duplicates), its serializer, positions (paths) and the fault
// kinds of the matrix.  Messages are built with this type so that a fault can be placed at any position
// and the integrity fields (transaction ids, previous hashes) recomputed by the REAL code afterwards.

import (
	"bytes"
	"encoding/json"
	"fmt"
	"strconv"
	"strings"
)

type jv struct {
	k    byte // 'n' null, 'b' bool, '#' number (literal text), 's' string, 'a' array, 'o' object, 'r' raw bytes
	b    bool
	lit  string // number literal / raw text
	s    string
	arr  []*jv
	keys []string
	vals []*jv
}

func jnull() *jv             { return &jv{k: 'n'} }
func jbool(b bool) *jv       { return &jv{k: 'b', b: b} }
func jnum(lit string) *jv    { return &jv{k: '#', lit: lit} }
func jint(i int64) *jv       { return jnum(strconv.FormatInt(i, 10)) }
func juint(u uint64) *jv     { return jnum(strconv.FormatUint(u, 10)) }
func jstr(s string) *jv      { return &jv{k: 's', s: s} }
func jraw(text string) *jv   { return &jv{k: 'r', lit: text} }
func jarr(xs ...*jv) *jv     { return &jv{k: 'a', arr: xs} }
func jobj() *jv              { return &jv{k: 'o'} }
func (v *jv) set(k string, x *jv) *jv {
	v.keys = append(v.keys, k)
	v.vals = append(v.vals, x)
	return v
}

func (v *jv) get(k string) *jv {
	for i := len(v.keys) - 1; i >= 0; i-- {
		if v.keys[i] == k {
			return v.vals[i]
		}
	}
	return nil
}

func (v *jv) clone() *jv {
	if v == nil {
		return nil
	}
	c := *v
	c.arr = nil
	c.vals = nil
	c.keys = append([]string(nil), v.keys...)
	for _, x := range v.arr {
		c.arr = append(c.arr, x.clone())
	}
	for _, x := range v.vals {
		c.vals = append(c.vals, x.clone())
	}
	return &c
}

func quote(s string) []byte {
	b, _ := json.Marshal(s) // Go's own string escaping
	return b
}

func (v *jv) write(w *bytes.Buffer) {
	switch v.k {
	case 'n':
		w.WriteString("null")
	case 'b':
		if v.b {
			w.WriteString("true")
		} else {
			w.WriteString("false")
		}
	case '#', 'r':
		w.WriteString(v.lit)
	case 's':
		w.Write(quote(v.s))
	case 'a':
		w.WriteByte('[')
		for i, x := range v.arr {
			if i > 0 {
				w.WriteByte(',')
			}
			x.write(w)
		}
		w.WriteByte(']')
	case 'o':
		w.WriteByte('{')
		for i, x := range v.vals {
			if i > 0 {
				w.WriteByte(',')
			}
			w.Write(quote(v.keys[i]))
			w.WriteByte(':')
			x.write(w)
		}
		w.WriteByte('}')
	}
}

func (v *jv) bytes() []byte {
	var w bytes.Buffer
	v.write(&w)
	return w.Bytes()
}

// parseJV reads a VALID JSON text (as produced by json.Marshal) into a tree.
func parseJV(b []byte) (*jv, error) {
	dec := json.NewDecoder(bytes.NewReader(b))
	dec.UseNumber()
	v, err := readJV(dec)
	if err != nil {
		return nil, err
	}
	return v, nil
}

func readJV(dec *json.Decoder) (*jv, error) {
	t, err := dec.Token()
	if err != nil {
		return nil, err
	}
	switch x := t.(type) {
	case nil:
		return jnull(), nil
	case bool:
		return jbool(x), nil
	case json.Number:
		return jnum(string(x)), nil
	case string:
		return jstr(x), nil
	case json.Delim:
		if x == '[' {
			a := jarr()
			for dec.More() {
				e, err := readJV(dec)
				if err != nil {
					return nil, err
				}
				a.arr = append(a.arr, e)
			}
			_, err := dec.Token()
			return a, err
		}
		if x == '{' {
			o := jobj()
			for dec.More() {
				kt, err := dec.Token()
				if err != nil {
					return nil, err
				}
				e, err := readJV(dec)
				if err != nil {
					return nil, err
				}
				o.set(kt.(string), e)
			}
			_, err := dec.Token()
			return o, err
		}
	}
	return nil, fmt.Errorf("unexpected token %v", t)
}

// ---------------------------------------------------------------- positions

type step struct {
	key string // object member (first occurrence), when idx < 0
	idx int
}

type path []step

func (p path) String() string {
	if len(p) == 0 {
		return "$"
	}
	var b strings.Builder
	b.WriteString("$")
	for _, s := range p {
		if s.idx >= 0 {
			fmt.Fprintf(&b, "[%d]", s.idx)
		} else {
			b.WriteString("." + s.key)
		}
	}
	return b.String()
}

// schema position: the path with array indices erased to first/last
func (p path) schema() string {
	var b strings.Builder
	b.WriteString("$")
	for _, s := range p {
		if s.idx >= 0 {
			b.WriteString("[]")
		} else {
			b.WriteString("." + s.key)
		}
	}
	return b.String()
}

func (v *jv) at(p path) *jv {
	cur := v
	for _, s := range p {
		if cur == nil {
			return nil
		}
		if s.idx >= 0 {
			if cur.k != 'a' || s.idx >= len(cur.arr) {
				return nil
			}
			cur = cur.arr[s.idx]
		} else {
			if cur.k != 'o' {
				return nil
			}
			var nx *jv
			for i, k := range cur.keys {
				if k == s.key {
					nx = cur.vals[i]
					break
				}
			}
			cur = nx
		}
	}
	return cur
}

// positions lists every node; of an array only the first and the last element are descended into
// (maxArr limits fixed-size arrays such as previous_hash to the first element).
func (v *jv) positions() []path {
	var res []path
	var walk func(x *jv, p path)
	walk = func(x *jv, p path) {
		res = append(res, append(path(nil), p...))
		switch x.k {
		case 'a':
			n := len(x.arr)
			for i := 0; i < n; i++ {
				if i == 0 || (i == n-1 && n <= 8) {
					walk(x.arr[i], append(p, step{idx: i}))
				}
			}
		case 'o':
			for i, k := range x.keys {
				walk(x.vals[i], append(p, step{key: k, idx: -1}))
			}
		}
	}
	walk(v, nil)
	return res
}

// ---------------------------------------------------------------- faults

var boundaryNumbers = []string{"-1", "0", "65535", "65536", "9223372036854775807", "9223372036854775808",
	"18446744073709551615", "18446744073709551616", "-9223372036854775808", "-9223372036854775809",
	"1e400", "1.5", "-0", "1e2", "1.0", "0.0e-1"}

// faultKinds applicable to a node of the given kind (class: the five kinds of the property + extras)
func faultsFor(x *jv, isRoot bool, parentKind byte) []string {
	f := []string{"null", "absent"}
	switch x.k {
	case 's':
		f = append(f, "empty", "wrongtype:number", "wrongtype:array", "wrongtype:object", "wrongtype:bool")
	case '#':
		f = append(f, "wrongtype:string", "wrongtype:array", "wrongtype:bool")
		for _, n := range boundaryNumbers {
			f = append(f, "boundary:"+n)
		}
	case 'b':
		f = append(f, "wrongtype:string", "wrongtype:number")
	case 'a':
		f = append(f, "empty", "wrongtype:object", "wrongtype:string", "wrongtype:number", "elem:null-appended", "elem:duplicated")
	case 'o':
		f = append(f, "empty", "wrongtype:array", "wrongtype:string", "wrongtype:number", "unknown-key")
	}
	if parentKind == 'o' {
		f = append(f, "dupkey:null-after", "dupkey:same-after", "dupkey:empty-before", "dupkey:twice-nulls", "key:upper", "key:fold")
	}
	return f
}

func faultClass(f string) string {
	if i := strings.IndexByte(f, ':'); i >= 0 {
		return f[:i]
	}
	return f
}

func emptyOf(x *jv) *jv {
	switch x.k {
	case 's':
		return jstr("")
	case 'a':
		return jarr()
	case 'o':
		return jobj()
	}
	return nil
}

func foldKey(k string) string {
	// 's' → U+017F, 'k' → U+212A (both fold to the ASCII letter in encoding/json), first occurrence only
	if i := strings.IndexByte(k, 's'); i >= 0 {
		return k[:i] + "ſ" + k[i+1:]
	}
	if i := strings.IndexByte(k, 'k'); i >= 0 {
		return k[:i] + "K" + k[i+1:]
	}
	if i := strings.IndexByte(k, 'S'); i >= 0 {
		return k[:i] + "ſ" + k[i+1:]
	}
	return strings.ToUpper(k[:1]) + k[1:]
}

// applyFault returns a mutated copy of root (nil when the fault does not apply, or the whole message is removed:
// then raw is the message bytes to send).
func applyFault(root *jv, p path, fault string) (res *jv, whole []byte, ok bool) {
	r := root.clone()
	if len(p) == 0 {
		x := r
		switch {
		case fault == "null":
			return jnull(), nil, true
		case fault == "absent":
			return nil, []byte{}, true
		default:
			y := mutateNode(x, fault)
			if y == nil {
				return nil, nil, false
			}
			return y, nil, true
		}
	}
	parent := r.at(p[:len(p)-1])
	last := p[len(p)-1]
	if parent == nil {
		return nil, nil, false
	}
	if last.idx >= 0 {
		i := last.idx
		switch fault {
		case "absent":
			parent.arr = append(parent.arr[:i:i], parent.arr[i+1:]...)
		default:
			y := mutateNode(parent.arr[i], fault)
			if y == nil {
				return nil, nil, false
			}
			parent.arr[i] = y
		}
		return r, nil, true
	}
	i := -1
	for j, k := range parent.keys {
		if k == last.key {
			i = j
			break
		}
	}
	if i < 0 {
		return nil, nil, false
	}
	insert := func(at int, k string, v *jv) {
		parent.keys = append(parent.keys[:at:at], append([]string{k}, parent.keys[at:]...)...)
		parent.vals = append(parent.vals[:at:at], append([]*jv{v}, parent.vals[at:]...)...)
	}
	switch fault {
	case "absent":
		parent.keys = append(parent.keys[:i:i], parent.keys[i+1:]...)
		parent.vals = append(parent.vals[:i:i], parent.vals[i+1:]...)
	case "dupkey:null-after":
		insert(i+1, last.key, jnull())
	case "dupkey:same-after":
		insert(i+1, last.key, parent.vals[i].clone())
	case "dupkey:empty-before":
		e := emptyOf(parent.vals[i])
		if e == nil {
			e = jnull()
		}
		insert(i, last.key, e)
	case "dupkey:twice-nulls":
		// [x, y] then [null] then [null, null]: re-use of stale backing-array elements
		x := parent.vals[i]
		if x.k != 'a' || len(x.arr) < 2 {
			return nil, nil, false
		}
		insert(i+1, last.key, jarr(jnull()))
		insert(i+2, last.key, jarr(jnull(), jnull()))
	case "key:upper":
		parent.keys[i] = strings.ToUpper(last.key)
	case "key:fold":
		parent.keys[i] = foldKey(last.key)
	default:
		y := mutateNode(parent.vals[i], fault)
		if y == nil {
			return nil, nil, false
		}
		parent.vals[i] = y
	}
	return r, nil, true
}

func mutateNode(x *jv, fault string) *jv {
	switch {
	case fault == "null":
		return jnull()
	case fault == "empty":
		return emptyOf(x)
	case fault == "wrongtype:number":
		return jnum("123")
	case fault == "wrongtype:string":
		return jstr("12")
	case fault == "wrongtype:array":
		return jarr(x.clone())
	case fault == "wrongtype:object":
		return jobj().set("x", x.clone())
	case fault == "wrongtype:bool":
		return jbool(true)
	case strings.HasPrefix(fault, "boundary:"):
		return jnum(strings.TrimPrefix(fault, "boundary:"))
	case fault == "elem:null-appended":
		y := x.clone()
		y.arr = append(y.arr, jnull())
		return y
	case fault == "elem:duplicated":
		if len(x.arr) == 0 {
			return nil
		}
		y := x.clone()
		y.arr = append(y.arr, y.arr[0].clone())
		return y
	case fault == "unknown-key":
		y := x.clone()
		y.set("unknown_key", jarr(jobj().set("a", jnull()), jnum("1e5")))
		return y
	}
	return nil
}
