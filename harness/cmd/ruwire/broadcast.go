package main

// BROADCAST (C15): what a node sends to its neighbours for an accepted transaction is what it accepted.
//
// A real TransactionsPool (real chain, real registries) has k neighbours whose AddTransaction — like a real neighbour,
// which dials and shakes hands first — reads the bytes it was handed only LATER: here, after all m transactions of
// the burst have been accepted.  Every neighbour must then hold exactly m requests which the real decoder turns into
// the m accepted transactions (same ids, byte-identical re-encoding), each naming the host as broadcaster.

import (
	"encoding/json"
	"fmt"
	"sort"
	"sync"
	"time"

	"github.com/my-cloud/ruthenium/validatornode/application"
	"github.com/my-cloud/ruthenium/validatornode/domain/ledger"

	"ruverif/internal/node"
)

type broadcastReport struct {
	Evaluations int
	Bursts      int
	Failures    []failure
	Hist        map[string]int
}

func runBroadcast(rep *broadcastReport) {
	rep.Hist = map[string]int{}
	for _, m := range []int{2, 3, 5} {
		for _, k := range []int{1, 3} {
			for _, same := range []bool{true, false} {
				broadcastBurst(rep, m, k, same)
			}
		}
	}
}

func broadcastBurst(rep *broadcastReport, m, k int, sameLength bool) {
	rep.Bursts++
	label := fmt.Sprintf("burst of %d transactions, %d neighbours, %s", m, k, map[bool]string{true: "equal encoded lengths", false: "different encoded lengths"}[sameLength])
	fail := func(sig, detail string, extra map[string]interface{}) {
		r := map[string]interface{}{"tool": "ruwire", "mode": "broadcast", "transactions": m, "neighbours": k, "same_length": sameLength}
		for kk, v := range extra {
			r[kk] = v
		}
		rep.Failures = append(rep.Failures, failure{Kind: "prop", Signature: "C15/broadcast/" + sig, Detail: label + ": " + detail, Replay: r, FoundInput: true})
	}
	s := node.DefaultSettings()
	w0 := node.NewWallet(0)
	n := node.New("127.0.0.1:10600", s, w0.Address)
	n.Pool.Validate(T0)
	n.Pool.Validate(T0 + s.Interval)
	gid := n.AllBlocks()[0].Transactions()[0].Id()
	// split the genesis output into m outputs, confirm them
	next := T0 + 2*s.Interval
	genesisValue := n.Utxos.Utxos(w0.Address)[0].Value(next, s.HalfLife, s.Base, s.Limit)
	part := (genesisValue - s.MinFee) / uint64(m)
	var outs []node.RawOutput
	for i := 0; i < m; i++ {
		outs = append(outs, node.RawOutput{Address: w0.Address, Value: part})
	}
	split, _, err := node.MakeTx([]node.Spend{{TxId: gid, Index: 0, By: w0}}, outs, T0+s.Interval)
	if err != nil {
		fail("harness", "cannot build the split transaction: "+err.Error(), nil)
		return
	}
	n.Pool.AddTransaction(split, "", n.Name)
	n.Pool.Validate(next)
	n.Pool.Validate(next + s.Interval)
	last := next + s.Interval
	if len(n.Utxos.Utxos(w0.Address)) < m {
		rep.Hist["setup-failed"]++
		return
	}
	// the neighbours: read what they were handed only once the gate opens
	gate := make(chan struct{})
	var mu sync.Mutex
	got := make([][][]byte, k)
	var senders []application.Sender
	for i := 0; i < k; i++ {
		i := i
		senders = append(senders, &node.Sender{TargetValue: fmt.Sprintf("127.0.0.1:106%02d", i+1), AddTx: func(b []byte) error {
			<-gate
			c := append([]byte(nil), b...)
			mu.Lock()
			got[i] = append(got[i], c)
			mu.Unlock()
			return nil
		}})
	}
	n.Senders.Set(senders)
	var accepted []*ledger.Transaction
	worth := map[uint16]uint64{}
	for _, u := range n.Utxos.Utxos(w0.Address) {
		if u.TransactionId() == split.Id() {
			worth[u.OutputIndex()] = u.Value(last+s.Interval, s.HalfLife, s.Base, s.Limit)
		}
	}
	for i := 0; i < m; i++ {
		if worth[uint16(i)] <= s.MinFee+1 {
			rep.Hist["setup-failed"]++
			close(gate)
			return
		}
		v := worth[uint16(i)] - s.MinFee
		if !sameLength {
			for j := 0; j < i; j++ { // other digit counts: other lengths
				v /= 10
			}
		}
		tx, _, err := node.MakeTx([]node.Spend{{TxId: split.Id(), Index: uint16(i), By: w0}}, []node.RawOutput{{Address: node.NewWallet(1).Address, Value: v}}, last)
		if err != nil {
			fail("harness", "cannot build transaction: "+err.Error(), nil)
			return
		}
		n.Pool.AddTransaction(tx, "", n.Name)
		accepted = append(accepted, tx)
		rep.Evaluations++
	}
	if len(n.Pool.Transactions()) != m {
		rep.Hist["not-all-admitted"]++
		close(gate)
		return
	}
	close(gate)
	deadline := time.Now().Add(3 * time.Second)
	for {
		mu.Lock()
		done := true
		for i := range got {
			if len(got[i]) < m {
				done = false
			}
		}
		mu.Unlock()
		if done || time.Now().After(deadline) {
			break
		}
		time.Sleep(2 * time.Millisecond)
	}
	want := map[string]string{}
	var wantIds []string
	for _, tx := range accepted {
		b, _ := json.Marshal(tx)
		want[tx.Id()] = string(b)
		wantIds = append(wantIds, tx.Id()[:8])
	}
	sort.Strings(wantIds)
	mu.Lock()
	defer mu.Unlock()
	for i := range got {
		if len(got[i]) != m {
			fail("count", fmt.Sprintf("neighbour %d was handed %d requests within 3 s, %d transactions were accepted", i, len(got[i]), m), nil)
			return
		}
		var gotIds []string
		for _, payload := range got[i] {
			var req *ledger.TransactionRequest
			if err := json.Unmarshal(payload, &req); err != nil || req == nil || req.Transaction() == nil {
				fail("undecodable", fmt.Sprintf("neighbour %d cannot decode what it was handed for an accepted transaction (%v): %.160q", i, err, string(payload)),
					map[string]interface{}{"payload": string(payload)})
				return
			}
			id := req.Transaction().Id()
			short := id
			if len(short) > 8 {
				short = short[:8]
			}
			gotIds = append(gotIds, short)
			re, _ := json.Marshal(req.Transaction())
			if w, ok := want[id]; !ok || w != string(re) {
				sort.Strings(gotIds)
				fail("other-transaction", fmt.Sprintf("neighbour %d decoded a transaction the node did not accept in this form (id %.8s); accepted %v", i, id, wantIds),
					map[string]interface{}{"payload": string(payload)})
				return
			}
			if req.TransactionBroadcasterTarget() != n.Name {
				fail("broadcaster", fmt.Sprintf("neighbour %d: the request names %q as broadcaster, the host is %q", i, req.TransactionBroadcasterTarget(), n.Name), nil)
				return
			}
		}
		sort.Strings(gotIds)
		if fmt.Sprint(gotIds) != fmt.Sprint(wantIds) {
			fail("set-differs", fmt.Sprintf("neighbour %d decoded transactions %v, the node accepted %v", i, gotIds, wantIds), nil)
			return
		}
	}
	rep.Hist["burst-ok"]++
}
