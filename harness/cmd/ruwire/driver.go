package main

// The pipe to the Lean model (lean/codec codecdriver) and the instantiation of the model's crypto
// parameters with the answers of the REAL encryption package.

import (
	"bufio"
	"bytes"
	"encoding/hex"
	"encoding/json"
	"fmt"
	"io"
	"os/exec"
	"sort"
	"strings"

	"github.com/my-cloud/ruthenium/validatornode/domain/encryption"
)

type modelAns struct {
	Class    string   `json:"class"`
	Site     string   `json:"site"`
	Parsed   bool     `json:"parsed"`
	Nil      bool     `json:"nil"`
	Enc      string   `json:"enc"`
	Stable   bool     `json:"stable"`
	Ids      []string `json:"ids"`
	Computed []string `json:"computed"`
	Rewards  []bool   `json:"rewards"`
	Hashes   []string `json:"hashes"`
	Calls    []string `json:"calls"`
}

type driver struct {
	cmd   *exec.Cmd
	in    io.WriteCloser
	out   *bufio.Reader
	asked int
}

func startDriver(path string) (*driver, error) {
	cmd := exec.Command(path)
	in, err := cmd.StdinPipe()
	if err != nil {
		return nil, err
	}
	out, err := cmd.StdoutPipe()
	if err != nil {
		return nil, err
	}
	if err := cmd.Start(); err != nil {
		return nil, err
	}
	return &driver{cmd: cmd, in: in, out: bufio.NewReaderSize(out, 1<<20)}, nil
}

func (d *driver) close() {
	if d == nil {
		return
	}
	_ = d.in.Close()
	_ = d.cmd.Wait()
}

func hx(b []byte) string {
	if len(b) == 0 {
		return "-"
	}
	return hex.EncodeToString(b)
}

// cryptoRow: what the real decoders say about one string
type cryptoRow struct {
	s                 string
	pkOk, sigOk       bool
	pkCanon, sigCanon string
}

var paramChecks int
var paramViolations []string

func cryptoOf(s string) cryptoRow {
	r := cryptoRow{s: s}
	if pk, err := encryption.NewPublicKeyFromHex(s); err == nil && pk != nil {
		r.pkOk = true
		r.pkCanon = pk.String()
		// hypotheses of the model: the canonical rendering is accepted and is a fixed point
		paramChecks++
		if pk2, err := encryption.NewPublicKeyFromHex(r.pkCanon); err != nil || pk2.String() != r.pkCanon {
			paramViolations = append(paramViolations, "pkCanon not accepted / not idempotent for "+s)
		}
	}
	if sg, err := encryption.DecodeSignature(s); err == nil && sg != nil {
		r.sigOk = true
		r.sigCanon = sg.String()
		paramChecks++
		if sg2, err := encryption.DecodeSignature(r.sigCanon); err != nil || sg2.String() != r.sigCanon {
			paramViolations = append(paramViolations, "sigCanon not accepted / not idempotent for "+s)
		}
	}
	return r
}

// stringsOf collects every string (keys and values) of the JSON texts, as encoding/json unquotes them.
func stringsOf(msgs ...[]byte) []string {
	seen := map[string]bool{}
	for _, m := range msgs {
		dec := json.NewDecoder(bytes.NewReader(m))
		dec.UseNumber()
		for {
			t, err := dec.Token()
			if err != nil {
				break
			}
			if s, ok := t.(string); ok {
				seen[s] = true
			}
		}
	}
	res := make([]string, 0, len(seen))
	for s := range seen {
		res = append(res, s)
	}
	sort.Strings(res)
	return res
}

func (d *driver) ask(op string, args ...[]byte) (*modelAns, error) {
	var b strings.Builder
	fmt.Fprintf(&b, "%s %d", op, len(args))
	for _, a := range args {
		b.WriteByte(' ')
		b.WriteString(hx(a))
	}
	var rows []cryptoRow
	have := map[string]bool{}
	var addRow func(s string)
	addRow = func(s string) {
		if have[s] {
			return
		}
		have[s] = true
		r := cryptoOf(s)
		if r.pkOk || r.sigOk {
			rows = append(rows, r)
			// the canonical renderings too: the model re-decodes its own encodings
			if r.pkOk {
				addRow(r.pkCanon)
			}
			if r.sigOk {
				addRow(r.sigCanon)
			}
		}
	}
	for _, s := range stringsOf(args...) {
		addRow(s)
	}
	fmt.Fprintf(&b, " %d", len(rows))
	for _, r := range rows {
		ok := func(x bool) string {
			if x {
				return "1"
			}
			return "0"
		}
		fmt.Fprintf(&b, " %s %s %s %s %s", hx([]byte(r.s)), ok(r.pkOk), hx([]byte(r.pkCanon)), ok(r.sigOk), hx([]byte(r.sigCanon)))
	}
	b.WriteByte('\n')
	if _, err := io.WriteString(d.in, b.String()); err != nil {
		return nil, fmt.Errorf("driver write: %w", err)
	}
	line, err := d.out.ReadBytes('\n')
	if err != nil {
		return nil, fmt.Errorf("driver read: %w", err)
	}
	d.asked++
	var a modelAns
	if err := json.Unmarshal(line, &a); err != nil {
		return nil, fmt.Errorf("driver answer %q: %w", string(line), err)
	}
	return &a, nil
}
