// ruwire — correspondence and direct evaluation for C14 (no bytes can crash a node) and C15 (wire fidelity):
// the REAL decoders, handlers, Blockchain.Update, access-node controllers and a real TCP node against the
// executable Lean model lean/codec (codecdriver).
//
//	--mode fault     the fault matrix: every position of every message schema × fault kinds, ids and hashes
//	                 recomputed by the real code, (1) to the typed decoders, (2) to the real handlers / Update /
//	                 access-node routes on a freshly booted validator, followed by admission, a Validate tick,
//	                 a sync of a fresh peer and the queries
//	--mode mutate    structure-aware random byte mutations of valid messages (tokenizer boundary)
//	--mode fidelity  generated values with extreme fields in four spellings: decode → encode, ids, hashes
//	--mode tcp       real api.NewHost + presentation.NewNode on loopback, real p2p.Neighbor client
//	--mode witness   the concrete counterexamples of Codec.Props on the real code
//
// Cases run in a CHILD process (same binary, --mode child): a panic in a goroutine started by a handler kills
// the child, the parent records the case in flight and continues with a new child.
// Output: one JSON summary on the last line of stdout.
package main

import (
	"bufio"
	"bytes"
	"crypto/sha256"
	"encoding/json"
	"flag"
	"fmt"
	"io"
	"math/rand"
	"os"
	"os/exec"
	"sort"
	"strings"
	"time"
)

type summary struct {
	Seed              int64                     `json:"seed"`
	Prop              string                    `json:"prop"`
	Modes             []string                  `json:"modes"`
	Evaluations       int                       `json:"evaluations"`
	DistinctNontriv   int                       `json:"distinct_nontrivial"`
	Rule              string                    `json:"rule"`
	Samples           []string                  `json:"samples"`
	Hist              map[string]map[string]int `json:"hist"`
	Matrix            map[string]map[string]int `json:"matrix"`
	Compared          int                       `json:"model_answers_compared"`
	ParamChecks       int                       `json:"param_hypothesis_checks"`
	ChildRestarts     int                       `json:"child_restarts"`
	Observations      map[string]int            `json:"observations"`
	Findings          []map[string]string       `json:"findings"`
	Failures          []failure                 `json:"failures"`
	Fatal             string                    `json:"fatal,omitempty"`
	WallSeconds       float64                   `json:"wall_s"`
}

const rule = "fault: every position (first/last element of arrays) of every schema × fault kind, executed on the real code and on the model; " +
	"mutate: random byte mutations of valid messages; fidelity: generated extreme values × 4 spellings; tcp: chain size × starting height. " +
	"A case is non-trivial when it is not the unmodified base message and both sides were executed and compared; distinct = different " +
	"(schema, position, fault or mutated-bytes digest, outcome, canonical re-encoding / calls)"

var sum = &summary{Hist: map[string]map[string]int{}, Matrix: map[string]map[string]int{}, Observations: map[string]int{}, Failures: []failure{}, Findings: []map[string]string{}, Samples: []string{}}
var keys = map[string]bool{}

func bump(m map[string]map[string]int, a, b string) {
	if m[a] == nil {
		m[a] = map[string]int{}
	}
	m[a][b]++
}

// ---------------------------------------------------------------- child

func childLoop(d *driver) {
	in := bufio.NewReaderSize(os.Stdin, 1<<22)
	out := bufio.NewWriter(os.Stdout)
	for {
		line, err := in.ReadBytes('\n')
		if len(bytes.TrimSpace(line)) > 0 {
			var c caseSpec
			var r *caseResult
			if jerr := json.Unmarshal(line, &c); jerr != nil {
				r = &caseResult{Note: "bad case: " + jerr.Error()}
			} else {
				r = runCase(&c, d)
			}
			b, _ := json.Marshal(r)
			out.Write(b)
			out.WriteByte('\n')
			out.Flush()
		}
		if err != nil {
			return
		}
	}
}

func runCase(c *caseSpec, d *driver) *caseResult {
	switch c.Kind {
	case "dec":
		return runDec(c, d)
	case "handler":
		return runHandler(c, d)
	case "access":
		return runAccess(c, d)
	}
	return &caseResult{Note: "unknown kind " + c.Kind}
}

type child struct {
	cmd    *exec.Cmd
	in     io.WriteCloser
	out    *bufio.Reader
	stderr *bytes.Buffer
}

func startChild(driverPath string) (*child, error) {
	cmd := exec.Command(os.Args[0], "--mode", "child", "--driver", driverPath, "--prop", propId)
	in, err := cmd.StdinPipe()
	if err != nil {
		return nil, err
	}
	out, err := cmd.StdoutPipe()
	if err != nil {
		return nil, err
	}
	se := &bytes.Buffer{}
	cmd.Stderr = se
	if err := cmd.Start(); err != nil {
		return nil, err
	}
	return &child{cmd, in, bufio.NewReaderSize(out, 1<<22), se}, nil
}

func (c *child) stop() {
	if c == nil {
		return
	}
	_ = c.in.Close()
	_ = c.cmd.Wait()
}

type pool struct {
	driverPath string
	c          *child
}

// run executes one case in the child; a dead child is a failure of that case.
func (p *pool) run(c *caseSpec) *caseResult {
	for attempt := 0; ; attempt++ {
		if p.c == nil {
			ch, err := startChild(p.driverPath)
			if err != nil {
				return &caseResult{Note: "cannot start child: " + err.Error()}
			}
			p.c = ch
		}
		b, _ := json.Marshal(c)
		_, werr := p.c.in.Write(append(b, '\n'))
		var line []byte
		var rerr error
		if werr == nil {
			done := make(chan struct{})
			go func() {
				line, rerr = p.c.out.ReadBytes('\n')
				close(done)
			}()
			select {
			case <-done:
			case <-time.After(60 * time.Second):
				_ = p.c.cmd.Process.Kill()
				<-done
				rerr = fmt.Errorf("no answer within 60 s")
			}
		}
		if werr == nil && rerr == nil {
			var r caseResult
			if err := json.Unmarshal(line, &r); err == nil {
				return &r
			}
			rerr = fmt.Errorf("unreadable result %q", clip(string(line)))
		}
		// the child died (a panic outside recover's reach) or hung
		_ = p.c.in.Close()
		_ = p.c.cmd.Wait()
		stack := p.c.stderr.String()
		p.c = nil
		sum.ChildRestarts++
		r := &caseResult{Impl: "panic", Model: "?"}
		if len(stack) > 6000 {
			stack = stack[:6000]
		}
		what := "process-died"
		if rerr != nil && strings.Contains(rerr.Error(), "within 60 s") {
			what = "hung"
		}
		c.fail(r, what, fmt.Sprintf("the process executing the case died or hung (%v %v):\n%s", werr, rerr, stack), unhexMsg(c.MsgHex))
		return r
	}
}

// ---------------------------------------------------------------- case enumeration

type schemaDef struct {
	kind   string // dec | handler | access
	schema string // handler/access schema, or wire type for dec
	fix    string // fix-up schema for dec cases
	base   *jv
}

func mustJV(b []byte) *jv {
	v, err := parseJV(b)
	if err != nil {
		panic(fmt.Sprintf("base message does not parse: %v: %s", err, b))
	}
	return v
}

func baseDefs(w *world) ([]schemaDef, error) {
	var defs []schemaDef
	_, tx, err := w.baseTx(w.last())
	if err != nil {
		return nil, err
	}
	up, err := w.baseMessage("update-ext")
	if err != nil {
		return nil, err
	}
	full, err := w.baseMessage("update-full")
	if err != nil {
		return nil, err
	}
	req, _ := w.baseMessage("txreq")
	reqReward, _ := w.baseMessage("txreq-reward")
	prog, _ := w.baseMessage("progress")
	utxos, _ := json.Marshal(w.n.Utxos.Utxos(w.w0.Address))
	newBlock := up.v.arr[len(up.v.arr)-1]
	// typed decoders
	defs = append(defs,
		schemaDef{"dec", "output", "", tx.get("outputs").arr[0]},
		schemaDef{"dec", "input", "", tx.get("inputs").arr[0]},
		schemaDef{"dec", "inputinfo", "", jobj().set("output_index", jnum("1")).set("transaction_id", jstr(w.splitId))},
		schemaDef{"dec", "utxo", "", prog.v},
		schemaDef{"dec", "transaction", "post", tx},
		schemaDef{"dec", "transaction", "post", reqReward.v.get("Transaction")},
		schemaDef{"dec", "request", "txreq", req.v},
		schemaDef{"dec", "block", "block", newBlock},
		schemaDef{"dec", "blocks", "update-ext", up.v},
		schemaDef{"dec", "transactions", "transactions", newBlock.get("transactions")},
		schemaDef{"dec", "utxos", "", mustJV(utxos)},
		schemaDef{"dec", "targets", "", jarr(jstr("127.0.0.1:7003"), jstr("127.0.0.1:7004"))},
		schemaDef{"dec", "height", "", jnum("1")},
		schemaDef{"dec", "timestamp", "", jint(T0)},
		schemaDef{"dec", "address", "", jstr(w.w0.Address)},
	)
	// handlers on a booted validator
	for _, s := range []string{"txreq", "txreq-reward", "blocksreq", "utxosreq", "targets"} {
		b, err := w.baseMessage(s)
		if err != nil {
			return nil, err
		}
		defs = append(defs, schemaDef{"handler", s, s, b.v})
	}
	defs = append(defs, schemaDef{"handler", "update-ext", "update-ext", up.v}, schemaDef{"handler", "update-full", "update-full", full.v})
	// access node
	defs = append(defs, schemaDef{"access", "post", "post", tx}, schemaDef{"access", "progress", "progress", prog.v})
	return defs, nil
}

func parentKind(root *jv, p path) byte {
	if len(p) == 0 {
		return 0
	}
	par := root.at(p[:len(p)-1])
	if par == nil {
		return 0
	}
	return par.k
}

func fixSchemaTxPaths(fix string, root *jv) string { return fix }

// faultCases enumerates the matrix. level: 0 quick (handler-level: the five fault kinds of the property + key faults on
// a thinned set), 1 thorough (everything everywhere).
func faultCases(w *world, thorough bool) ([]caseSpec, error) {
	defs, err := baseDefs(w)
	if err != nil {
		return nil, err
	}
	var res []caseSpec
	for _, d := range defs {
		// the unmodified base message first
		base := caseSpec{Kind: d.kind, Schema: d.schema, Mode: "whole", Pos: "$", Variant: "base"}
		if d.kind == "dec" {
			base.MsgHex = hx(d.base.bytes())
		}
		res = append(res, base)
		for _, p := range d.base.positions() {
			x := d.base.at(p)
			faults := faultsFor(x, len(p) == 0, parentKind(d.base, p))
			for _, f := range faults {
				if d.kind != "dec" && !thorough && !quickFault(d.schema, p, f) {
					continue
				}
				c := caseSpec{Kind: d.kind, Schema: d.schema, Mode: "whole", Path: toPsteps(p), Pos: p.schema(), Fault: f}
				if d.kind == "dec" {
					v, whole, ok := applyFault(d.base, p, f)
					if !ok {
						continue
					}
					if v == nil {
						c.MsgHex = hx(whole)
					} else {
						if d.fix != "" {
							fixUpDec(d.fix, v, p, f)
						}
						c.MsgHex = hx(v.bytes())
					}
				} else if _, _, ok := applyFault(d.base, p, f); !ok {
					continue
				}
				res = append(res, c)
				if d.kind == "dec" && (d.schema == "transaction" || d.schema == "utxo") && len(p) == 0 {
					// the access node reads these two with json.Decoder: also in stream mode
					c2 := c
					c2.Mode = "first"
					res = append(res, c2)
				}
			}
		}
	}
	// targets messages naming the recipient itself, a duplicate, an unresolvable host
	for _, v := range []string{`["127.0.0.1:7003","127.0.0.1:7004","127.0.0.1:7001"]`, `["127.0.0.1:7001"]`,
		`["127.0.0.1:7003","127.0.0.1:7003"]`, `["no-such-host.invalid:7003","127.0.0.1:7004"]`, `[]`} {
		res = append(res, caseSpec{Kind: "handler", Schema: "targets", Mode: "whole", Pos: "$", Fault: "own-target", Variant: v})
	}
	// delivery faults of the sync request: the (valid, garbage, failing) answer arrives AFTER the node's timeout
	for _, schema := range []string{"update-ext", "update-full"} {
		for _, v := range []string{"late", "late-garbage", "late-error"} {
			res = append(res, caseSpec{Kind: "handler", Schema: schema, Mode: "whole", Pos: "delivery", Fault: "delivery", Variant: v})
		}
	}
	// access node: query strings and faulted answers of the trusted validator
	for _, q := range []string{"", "?address=", "?address=" + w.w0.Address, "?address=" + w.w0.Address + "&value=1000&consolidation=false",
		"?address=" + w.w0.Address + "&value=-1&consolidation=true", "?address=" + w.w0.Address + "&value=99999999999999999999&consolidation=false",
		"?address=" + w.w0.Address + "&value=1&consolidation=maybe", "?address=%00%ff&value=1&consolidation=1", "?address=x&value=9223372036854775807&consolidation=0"} {
		res = append(res, caseSpec{Kind: "access", Schema: "info", Pos: "query", Fault: "query", Variant: q},
			caseSpec{Kind: "access", Schema: "amount", Pos: "query", Fault: "query", Variant: q})
	}
	res = append(res, caseSpec{Kind: "access", Schema: "transactions", Pos: "query", Fault: "query", Variant: ""})
	for _, a := range []string{"utxos=[null]", "utxos=null", "utxos=[]", "utxos=[{}]", "utxos={}", "utxos=[null,{\"value\":1}]", "blocks=[null]", "blocks=null", "blocks=[]",
		"blocks=[{\"transactions\":[null]}]", "blocks=[{}]", "transactions=[null]", "transactions=null", "transactions={}", "transactions=[]"} {
		res = append(res, caseSpec{Kind: "access", Schema: "progress-ans", Pos: "validator-answer", Fault: "trusted-answer", Variant: a})
		if strings.HasPrefix(a, "utxos=") {
			res = append(res, caseSpec{Kind: "access", Schema: "wallet-ans", Pos: "validator-answer/amount", Fault: "trusted-answer", Variant: a},
				caseSpec{Kind: "access", Schema: "wallet-ans", Pos: "validator-answer/info", Fault: "trusted-answer", Variant: a})
		}
	}
	return res, nil
}

// quickFault thins the handler-level matrix of the quick tier: the five fault kinds of the property at every
// position; the key faults and the long list of boundary numbers only where they matter.
func quickFault(schema string, p path, f string) bool {
	cl := faultClass(f)
	deep := len(p) > 3
	switch cl {
	case "null", "absent", "empty":
		return true
	case "wrongtype":
		return !deep || f == "wrongtype:number" || f == "wrongtype:string"
	case "boundary":
		switch f {
		case "boundary:-1", "boundary:65536", "boundary:9223372036854775808", "boundary:18446744073709551616", "boundary:1e400", "boundary:1.5":
			return true
		}
		// the LARGEST values that still decode (uint16 / int64 / uint64) at shallow positions and in every request that is
		// a bare number: arithmetic on them (x+1, x+limit) is where wrap-arounds live
		if schema == "blocksreq" {
			return true
		}
		if !deep && (f == "boundary:65535" || f == "boundary:9223372036854775807" || f == "boundary:18446744073709551615") {
			return true
		}
		return !deep && f == "boundary:-0"
	case "dupkey":
		return !deep || f == "dupkey:null-after"
	case "key":
		return !deep
	case "elem", "unknown-key":
		return true
	}
	return true
}

// fixUpDec: as fixUp, for the wire types that are not complete messages of a handler schema.
func fixUpDec(fix string, root *jv, fault path, f string) {
	switch fix {
	case "block":
		wrapped := jarr(root)
		fixUp("update-ext", wrapped, append(path{{idx: 0}}, fault...), f)
	case "transactions":
		wrapped := jarr(jobj().set("transactions", root))
		fixUp("update-ext", wrapped, append(path{{idx: 0}, {key: "transactions", idx: -1}}, fault...), f)
	default:
		fixUp(fix, root, fault, f)
	}
}

var decTypesForMutation = []string{"output", "input", "utxo", "transaction", "request", "block", "blocks", "transactions", "utxos", "targets", "height", "address", "timestamp"}

func mutationCases(w *world, rng *rand.Rand, n int) ([]caseSpec, error) {
	defs, err := baseDefs(w)
	if err != nil {
		return nil, err
	}
	var decs, handlers []schemaDef
	for _, d := range defs {
		switch d.kind {
		case "dec":
			decs = append(decs, d)
		case "handler", "access":
			handlers = append(handlers, d)
		}
	}
	var res []caseSpec
	for i := 0; i < n; i++ {
		if i%8 == 7 {
			d := handlers[rng.Intn(len(handlers))]
			res = append(res, caseSpec{Kind: d.kind, Schema: d.schema, Pos: "bytes", MutSeed: 1 + rng.Int63n(1<<40)})
			continue
		}
		d := decs[rng.Intn(len(decs))]
		msg := mutateBytes(rng, d.base.bytes())
		mode := "whole"
		if (d.schema == "transaction" || d.schema == "utxo") && rng.Intn(3) == 0 {
			mode = "first"
		}
		res = append(res, caseSpec{Kind: "dec", Schema: d.schema, Mode: mode, Pos: "bytes", MutSeed: int64(i + 1), MsgHex: hx(msg)})
	}
	return res, nil
}

// ---------------------------------------------------------------- accounting

func account(c *caseSpec, r *caseResult, mode string) {
	sum.Evaluations++
	sum.Compared += r.Compared
	fc := faultClass(c.Fault)
	if c.Fault == "" {
		fc = "valid"
	}
	if c.MutSeed != 0 {
		fc = "mutation"
	}
	bump(sum.Hist, mode+":"+c.Kind+":"+c.Schema, fc+"→"+r.Impl)
	if mode == "fault" {
		bump(sum.Matrix, c.Kind+":"+c.Schema+" "+c.Pos, fc+"→"+r.Impl)
	}
	for _, o := range r.Obs {
		if len(o) > 300 {
			o = o[:300]
		}
		sum.Observations[o]++
	}
	if r.Compared > 0 && (c.Fault != "" || c.MutSeed != 0 || c.Expect != "") && r.Impl != "skip" {
		k := r.Key
		if c.MutSeed != 0 || k == "" {
			h := sha256.Sum256([]byte(r.Sent))
			k = fmt.Sprintf("%s|%x|%s", c.label(), h[:8], r.Impl)
		}
		keys[c.label()+"|"+k] = true
	}
	seen := map[string]bool{}
	for _, f := range sum.Failures {
		seen[f.Signature] = true
	}
	for _, f := range r.Failures {
		if !seen[f.Signature] {
			seen[f.Signature] = true
			sum.Failures = append(sum.Failures, f)
		}
	}
	if len(sum.Samples) < 6 && c.Fault != "" && r.Impl != "skip" && sum.Evaluations%37 == 3 {
		sum.Samples = append(sum.Samples, fmt.Sprintf("%s %s: %s → impl %s, model %s", c.Kind, c.label(), clip(printable(unhexMsg(r.Sent))), r.Impl, r.Model))
	}
}

func finish(t0 time.Time) {
	sum.DistinctNontriv = len(keys)
	sum.ParamChecks += paramChecks
	sum.WallSeconds = time.Since(t0).Seconds()
	sum.Rule = rule
	if len(sum.Samples) == 0 {
		sum.Samples = []string{"(no case executed)"}
	}
	for _, v := range paramViolations {
		sum.Failures = append(sum.Failures, failure{Kind: "tie", Signature: propId + "/crypto-parameter-hypothesis", Detail: v, Replay: map[string]interface{}{"tool": "ruwire", "detail": v}, FoundInput: true})
		break
	}
	sort.Slice(sum.Failures, func(i, j int) bool { return sum.Failures[i].Signature < sum.Failures[j].Signature })
	b, _ := json.Marshal(sum)
	fmt.Println(string(b))
}

func main() {
	seed := flag.Int64("seed", 20260929, "PRNG seed")
	mode := flag.String("mode", "fault,mutate", "comma separated: fault, mutate, fidelity, tcp, broadcast, witness (child: internal)")
	driverPath := flag.String("driver", "/verif/lean/codec/.lake/build/bin/codecdriver", "Lean model driver")
	replay := flag.String("replay", "", "replay file (or the JSON of one failure's replay payload)")
	prop := flag.String("prop", "C14", "property id used in signatures")
	thorough := flag.Bool("thorough", false, "full matrix at handler level, larger streams")
	count := flag.Int("count", 0, "size of the random streams (default by tier)")
	page := flag.Int("page", 0, "blocks per page for the tcp mode (default 6, thorough 100)")
	flag.Parse()
	propId = *prop
	t0 := time.Now()

	if *mode == "child" {
		d, err := startDriver(*driverPath)
		if err != nil {
			fmt.Fprintln(os.Stderr, "driver:", err)
			os.Exit(3)
		}
		childLoop(d)
		d.close()
		return
	}

	sum.Seed, sum.Prop = *seed, propId
	p := &pool{driverPath: *driverPath}
	defer func() { p.c.stop() }()

	if *replay != "" {
		sum.Modes = []string{"replay"}
		b, err := os.ReadFile(*replay)
		if err != nil {
			b = []byte(*replay)
		}
		var body struct {
			Replay struct {
				Case    *caseSpec `json:"case"`
				Tcp     bool      `json:"tcp"`
				Witness string    `json:"witness"`
			} `json:"replay"`
		}
		if err := json.Unmarshal(b, &body); err != nil {
			sum.Fatal = "unreadable replay: " + err.Error()
			finish(t0)
			return
		}
		switch {
		case body.Replay.Case != nil:
			r := p.run(body.Replay.Case)
			account(body.Replay.Case, r, "replay")
		case body.Replay.Tcp:
			d, err := startDriver(*driverPath)
			if err == nil {
				rep := &tcpReport{}
				runTcp(d, 6, rep)
				sum.Failures = append(sum.Failures, rep.Failures...)
				sum.Evaluations += rep.Evaluations
				d.close()
			}
		case body.Replay.Witness != "":
			d, err := startDriver(*driverPath)
			if err == nil {
				runWitnesses(d, body.Replay.Witness)
				d.close()
			}
		default:
			sum.Fatal = "replay payload has no case"
		}
		finish(t0)
		return
	}

	rng := rand.New(rand.NewSource(*seed))
	w, err := boot()
	if err != nil {
		sum.Fatal = "boot: " + err.Error()
		finish(t0)
		return
	}
	for _, m := range strings.Split(*mode, ",") {
		m = strings.TrimSpace(m)
		if m == "" {
			continue
		}
		sum.Modes = append(sum.Modes, m)
		switch m {
		case "fault":
			cases, err := faultCases(w, *thorough)
			if err != nil {
				sum.Fatal = "fault cases: " + err.Error()
				break
			}
			for i := range cases {
				account(&cases[i], p.run(&cases[i]), m)
			}
		case "mutate":
			n := *count
			if n == 0 {
				n = 3000
				if *thorough {
					n = 40000
				}
			}
			cases, err := mutationCases(w, rng, n)
			if err != nil {
				sum.Fatal = "mutation cases: " + err.Error()
				break
			}
			for i := range cases {
				account(&cases[i], p.run(&cases[i]), m)
			}
		case "fidelity":
			n := *count
			if n == 0 {
				n = 25
				if *thorough {
					n = 400
				}
			}
			cases := fidelityCases(rng, n)
			for i := range cases {
				account(&cases[i], p.run(&cases[i]), m)
			}
		case "tcp":
			d, err := startDriver(*driverPath)
			if err != nil {
				sum.Fatal = "driver: " + err.Error()
				break
			}
			pg := *page
			if pg == 0 {
				pg = 6
				if *thorough {
					pg = 100
				}
			}
			rep := &tcpReport{}
			runTcp(d, pg, rep)
			d.close()
			sum.Evaluations += rep.Evaluations
			sum.Compared += d.asked
			for k, v := range rep.Hist {
				bump(sum.Hist, "tcp", k)
				sum.Hist["tcp"][k] += v - 1
			}
			for k := range rep.Keys {
				keys["tcp|"+k] = true
			}
			sum.Samples = append(sum.Samples, rep.Samples...)
			sum.Failures = append(sum.Failures, rep.Failures...)
		case "broadcast":
			rep := &broadcastReport{}
			runBroadcast(rep)
			sum.Evaluations += rep.Evaluations
			for k, v := range rep.Hist {
				bump(sum.Hist, "broadcast", k)
				sum.Hist["broadcast"][k] += v - 1
			}
			for i := 0; i < rep.Hist["burst-ok"]; i++ {
				keys[fmt.Sprintf("broadcast|%d", i)] = true
			}
			sum.Failures = append(sum.Failures, rep.Failures...)
		case "witness":
			d, err := startDriver(*driverPath)
			if err != nil {
				sum.Fatal = "driver: " + err.Error()
				break
			}
			runWitnesses(d, "")
			sum.Compared += d.asked
			d.close()
		default:
			sum.Fatal = "unknown mode " + m
		}
	}
	finish(t0)
}
