package main

import (
	"encoding/json"
	"fmt"

	"github.com/my-cloud/ruthenium/validatornode/domain/ledger"
	"ruverif/internal/node"
)

func main() {
	w0, w1 := node.NewWallet(0), node.NewWallet(1)
	r := node.RewardRaw(w0.Address, false, 100, 7)
	t := &node.RawTx{Timestamp: 100, Inputs: []node.RawInput{{0, r.Id, w1.PubHex, w1.Sign(0, r.Id)}}, Outputs: []node.RawOutput{{w1.Address, false, 3}}}
	t.Id, _ = t.ComputeId()
	rb, _ := json.Marshal(r)
	tb, _ := json.Marshal(t)
	msg := fmt.Sprintf(`{"previous_hash":null,"timestamp":5,"transactions":[%s],"transactions":[%s]}`, rb, tb)
	var b *ledger.Block
	err := json.Unmarshal([]byte(msg), &b)
	fmt.Println(err)
	for _, x := range b.Transactions() {
		fmt.Println(x.Id() == t.Id, x.HasReward(), x.RewardRecipientAddress(), x.RewardValue(), len(x.Inputs()))
	}
	enc, _ := json.Marshal(b)
	var b2 *ledger.Block
	_ = json.Unmarshal(enc, &b2)
	for _, x := range b2.Transactions() {
		fmt.Println(x.Id() == t.Id, x.HasReward())
	}
	// request
	msg2 := fmt.Sprintf(`{"Transaction":%s,"transaction":%s}`, rb, tb)
	var q *ledger.TransactionRequest
	fmt.Println(json.Unmarshal([]byte(msg2), &q), q.Transaction().HasReward(), q.Transaction().Id() == t.Id)
	// []string stale
	msg3 := `{"added_registered_addresses":["a","b"],"added_registered_addresses":[null],"added_registered_addresses":[null,null]}`
	var b3 *ledger.Block
	fmt.Println(json.Unmarshal([]byte(msg3), &b3), fmt.Sprintf("%q", b3.AddedRegisteredAddresses()))
	// long sharp s
	var o *ledger.Output
	fmt.Println(json.Unmarshal([]byte(`{"addreſſ":"x","IS_YIELDING":true,"value":1,"value":null}`), &o), o.Address(), o.IsYielding(), o.InitialValue())
	var arr *ledger.Block
	fmt.Println(json.Unmarshal([]byte(`{"previous_hash":[1,null,3,4,5,6,7,8,9,10,11,12,13,14,15,16,17,18,19,20,21,22,23,24,25,26,27,28,29,30,31,32,33,"x"]}`), &arr))
	if arr != nil { fmt.Println(arr.PreviousHash()) }
}
