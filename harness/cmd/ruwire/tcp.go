package main

// REAL TCP on loopback: the real api.NewHost + presentation.NewNode serve a real validator; a real
// p2p.Neighbor is the client.  All seven endpoints; chains up to a full page and beyond.

import (
	"bytes"
	"encoding/json"
	"fmt"
	"net"
	"runtime"
	"time"

	"github.com/my-cloud/ruthenium/validatornode/domain/ledger"
	"github.com/my-cloud/ruthenium/validatornode/infrastructure/p2p"
	"github.com/my-cloud/ruthenium/validatornode/presentation"
	"github.com/my-cloud/ruthenium/validatornode/presentation/api"

	"ruverif/internal/node"
)

type tcpReport struct {
	Evaluations int
	Hist        map[string]int
	Samples     []string
	Failures    []failure
	Keys        map[string]bool
}

func (t *tcpReport) fail(what, detail string, payload map[string]interface{}) {
	if payload == nil {
		payload = map[string]interface{}{}
	}
	payload["tool"] = "ruwire"
	payload["tcp"] = true
	t.Failures = append(t.Failures, failure{Kind: "diff", Signature: propId + "/tcp/" + what, Detail: detail, Replay: payload, FoundInput: true})
}

func freePort() (string, error) {
	l, err := net.Listen("tcp", "127.0.0.1:0")
	if err != nil {
		return "", err
	}
	defer l.Close()
	return fmt.Sprint(l.Addr().(*net.TCPAddr).Port), nil
}

func runTcp(d *driver, page int, rep *tcpReport) {
	rep.Hist = map[string]int{}
	rep.Keys = map[string]bool{}
	w, err := boot()
	if err != nil {
		rep.fail("setup", err.Error(), nil)
		return
	}
	w.s.BlocksLimit = uint64(page)
	port, err := freePort()
	if err != nil {
		rep.fail("setup", err.Error(), nil)
		return
	}
	settingsBytes := []byte(`{"blocksCountLimit":` + fmt.Sprint(page) + `,"note":"<settings> & bytes are served verbatim"}`)
	host, err := api.NewHost(w.n.Chain, w.sig, w.n.Pool, w.n.Utxos, port, settingsBytes, 2*time.Second)
	if err != nil {
		rep.fail("setup", "api.NewHost: "+err.Error(), nil)
		return
	}
	served := presentation.NewNode(host)
	go func() { _ = served.Run() }()
	for i := 0; i < 200; i++ {
		c, err := net.DialTimeout("tcp", "127.0.0.1:"+port, 50*time.Millisecond)
		if err == nil {
			_ = c.Close()
			break
		}
		time.Sleep(10 * time.Millisecond)
	}
	client, err := p2p.NewNeighbor("127.0.0.1", port, 2*time.Second, &node.Logger{})
	if err != nil {
		rep.fail("setup", "p2p.NewNeighbor: "+err.Error(), nil)
		return
	}

	checkBlocks := func(h uint64) {
		rep.Evaluations++
		rep.Hist["blocks"]++
		got, err := client.GetBlocks(h)
		if err != nil {
			rep.fail("blocks/transport", fmt.Sprintf("GetBlocks(%d): %v", h, err), map[string]interface{}{"height": h})
			return
		}
		local := w.n.Chain.Blocks(h)
		want, _ := json.Marshal(local)
		if !bytes.Equal(got, want) {
			rep.fail("blocks/bytes-differ", fmt.Sprintf("GetBlocks(%d): served bytes differ from the encoding of Blocks(%d)", h, h), map[string]interface{}{"height": h, "got": printable(got)})
			return
		}
		var dec []*ledger.Block
		if err := json.Unmarshal(got, &dec); err != nil {
			rep.fail("blocks/receiver-refuses", fmt.Sprintf("GetBlocks(%d): the receiver's decoder refuses what the node serves: %v", h, err), map[string]interface{}{"height": h, "got": printable(got)})
			return
		}
		re, _ := json.Marshal(dec)
		if !bytes.Equal(re, got) {
			rep.fail("blocks/re-encoding-differs", fmt.Sprintf("GetBlocks(%d): re-encoding of the received blocks is not byte-identical", h), map[string]interface{}{"height": h})
		}
		if len(dec) != len(local) {
			rep.fail("blocks/count", fmt.Sprintf("GetBlocks(%d): %d blocks received, %d served", h, len(dec), len(local)), nil)
			return
		}
		var hashes, ids []string
		for i := range dec {
			if node.HashHex(dec[i]) != node.HashHex(local[i]) {
				rep.fail("blocks/hash-differs", fmt.Sprintf("block %d: hash differs between sender and receiver", int(h)+i), nil)
			}
			hashes = append(hashes, node.HashHex(local[i]))
			lt, rt := local[i].Transactions(), dec[i].Transactions()
			if len(lt) != len(rt) {
				rep.fail("blocks/transaction-count", fmt.Sprintf("block %d: transaction count differs", int(h)+i), nil)
				continue
			}
			for j := range lt {
				if lt[j].Id() != rt[j].Id() || lt[j].HasReward() != rt[j].HasReward() || lt[j].Timestamp() != rt[j].Timestamp() {
					rep.fail("blocks/transaction-differs", fmt.Sprintf("block %d transaction %d differs between sender and receiver", int(h)+i, j), nil)
				}
				ids = append(ids, lt[j].Id())
			}
		}
		m, err := d.ask("dec:blocks:whole", got)
		if err != nil {
			rep.fail("driver-error", err.Error(), nil)
			return
		}
		if m.Class != "ok" || m.Enc != string(got) || !eqStrings(m.Hashes, hashes) || !eqStrings(m.Computed, ids) || !eqStrings(m.Ids, ids) || !m.Stable {
			rep.fail("blocks/model-differs", fmt.Sprintf("GetBlocks(%d): model class %s, same bytes %v, same hashes %v, same ids %v, stable %v", h, m.Class, m.Enc == string(got),
				eqStrings(m.Hashes, hashes), eqStrings(m.Computed, ids), m.Stable), map[string]interface{}{"height": h, "got": printable(got)})
		}
		rep.Keys[fmt.Sprintf("blocks|%d|%d", len(w.n.AllBlocks()), h)] = true
		if len(rep.Samples) < 3 {
			rep.Samples = append(rep.Samples, fmt.Sprintf("tcp GetBlocks(%d) on a %d-block chain (page %d): %d blocks, %d bytes, last hash %s", h, len(w.n.AllBlocks()), page, len(dec), len(got), last(hashes)))
		}
	}

	txDone := false
	checkOthers := func() {
		// first-block-timestamp
		rep.Evaluations++
		rep.Hist["first-block-timestamp"]++
		ts, err := client.GetFirstBlockTimestamp()
		if err != nil || ts != w.n.Chain.FirstBlockTimestamp() {
			rep.fail("first-block-timestamp", fmt.Sprintf("GetFirstBlockTimestamp = %d, %v; the chain's is %d", ts, err, w.n.Chain.FirstBlockTimestamp()), nil)
		}
		// settings
		rep.Evaluations++
		rep.Hist["settings"]++
		sb, err := client.GetSettings()
		if err != nil || !bytes.Equal(sb, settingsBytes) {
			rep.fail("settings", fmt.Sprintf("GetSettings: %v, %q", err, printable(sb)), nil)
		}
		// targets
		rep.Evaluations++
		rep.Hist["targets"]++
		w.drainSignals()
		targets := []string{"127.0.0.1:7003", "10.0.0.1:1", "<html>&:80", "ünï:1"}
		if err := client.SendTargets(targets); err != nil {
			rep.fail("targets/transport", err.Error(), nil)
		} else {
			want, _ := json.Marshal(targets)
			if s, bad := w.awaitSignal("targets:"); bad || s != "targets:"+string(want) {
				rep.fail("targets", fmt.Sprintf("SendTargets(%s): the node's AddTargets received %q", want, s), nil)
			}
		}
		// transaction
		rep.Evaluations++
		rep.Hist["transaction"]++
		tx, err := w.otherTx(w.last())
		if err == nil && !txDone {
			txDone = true
			req, _ := json.Marshal(ledger.NewTransactionRequest(tx, "127.0.0.1:7003"))
			w.drainSignals()
			base := runtime.NumGoroutine()
			had := len(w.n.Pool.Transactions())
			if err := client.AddTransaction(req); err != nil {
				rep.fail("transaction/transport", err.Error(), nil)
			} else {
				sig, hung := w.awaitAdd(base)
				pool := w.n.Pool.Transactions()
				if hung || len(pool) != had+1 || pool[len(pool)-1].Id() != tx.Id() || sig != "incentive:127.0.0.1:7003" {
					rep.fail("transaction", fmt.Sprintf("AddTransaction: pool %d → %d, signal %q, log %v", had, len(pool), sig, tailOf(w.n.Log.Snapshot(), 2)), nil)
				}
			}
		}
		// transactions
		rep.Evaluations++
		rep.Hist["transactions"]++
		tb, err := client.GetTransactions()
		want, _ := json.Marshal(w.n.Pool.Transactions())
		if err != nil || !bytes.Equal(tb, want) {
			rep.fail("transactions", fmt.Sprintf("GetTransactions: %v; bytes equal: %v", err, bytes.Equal(tb, want)), nil)
		} else {
			var dec []*ledger.Transaction
			if err := json.Unmarshal(tb, &dec); err != nil {
				rep.fail("transactions/receiver-refuses", err.Error(), nil)
			}
			var ids []string
			for _, t := range w.n.Pool.Transactions() {
				ids = append(ids, t.Id())
			}
			if m, err := d.ask("dec:transactions:whole", tb); err != nil || m.Class != "ok" || m.Enc != string(tb) || !eqStrings(m.Computed, ids) {
				rep.fail("transactions/model-differs", fmt.Sprintf("model: %v %+v", err, m), nil)
			}
		}
		// utxos
		for _, wl := range []*node.Wallet{w.w0, w.w1, w.w2} {
			rep.Evaluations++
			rep.Hist["utxos"]++
			ub, err := client.GetUtxos(wl.Address)
			want, _ := json.Marshal(w.n.Utxos.Utxos(wl.Address))
			if err != nil || !bytes.Equal(ub, want) {
				rep.fail("utxos", fmt.Sprintf("GetUtxos(%s): %v; bytes equal: %v", wl.Address, err, bytes.Equal(ub, want)), nil)
				continue
			}
			var dec []*ledger.Utxo
			if err := json.Unmarshal(ub, &dec); err != nil {
				rep.fail("utxos/receiver-refuses", err.Error(), nil)
			}
			re, _ := json.Marshal(dec)
			if m, err := d.ask("dec:utxos:whole", ub); err != nil || m.Class != "ok" || m.Enc != string(ub) || !bytes.Equal(re, ub) {
				rep.fail("utxos/model-differs", fmt.Sprintf("model: %v %+v", err, m), nil)
			}
		}
		// each endpoint answers the request it is named for: the answers equal those of the same-named controller
		rep.Evaluations++
		rep.Hist["named-for"]++
		q, _ := json.Marshal(uint64(0))
		direct, _ := w.blocks.HandleBlocksRequest(bg, data(q))
		viaTcp, _ := client.GetBlocks(0)
		directTx, _ := w.txs.HandleTransactionsRequest(bg, data(nil))
		viaTcpTx, _ := client.GetTransactions()
		if !bytes.Equal(direct.GetBytes(), viaTcp) || !bytes.Equal(directTx.GetBytes(), viaTcpTx) || bytes.Equal(viaTcp, viaTcpTx) {
			rep.fail("named-for", "an endpoint does not answer with its own controller's answer", nil)
		}
	}

	// chains of every size from the booted one up to a full page and two beyond
	for size := len(w.n.AllBlocks()); size <= page+2; size++ {
		for len(w.n.AllBlocks()) < size {
			w.n.Pool.Validate(w.last() + w.s.Interval)
		}
		hs := []uint64{0, uint64(size - 1), uint64(size), uint64(size / 2)}
		if size > page {
			hs = append(hs, uint64(size-page), uint64(size-page-1))
		}
		for _, h := range hs {
			checkBlocks(h)
		}
		if size == len(w.n.AllBlocks()) && (size == 4 || size == page || size == page+2) {
			checkOthers()
		}
	}
}

func last(l []string) string {
	if len(l) == 0 {
		return ""
	}
	return l[len(l)-1]
}
