package main

// FIDELITY: generated blocks / transactions / … with extreme field values, in several spellings of the
// same value; the REAL decoder must accept them, and decode → encode (→ decode → encode) is compared
// with the model's, as are ids and block hashes computed by the model from its own rendering.

import (
	"fmt"
	"math/rand"
	"strings"
)

var addressPool = []string{"", "0xf39Fd6e51aad88F6F4ce6aB8827279cffFb92266", "héllo wörld", "<script>alert(1)&amp;</script>", "日本語のアドレス",
	"a\"b\\c/d", "line\nbreak\ttab\rret\bbs\fff", " sep ", "\x00\x01\x1f", "\xff\xfe invalid utf8 \xe2\x82", "😀🚀", "\x7f", "ſK", "'single'",
	strings.Repeat("x", 300), "0x0000000000000000000000000000000000000000", " spaced ", "null", "[]", "�", "퟿"}

var valuePool = []uint64{0, 1, 2, 1000, 1 << 16, 1<<32 - 1, 1 << 32, 1<<53 + 1, 1<<63 - 1, 1 << 63, 1<<64 - 1}
var timePool = []int64{0, 1, -1, T0, 1<<63 - 1, -1 << 63, 1 << 53, -(1 << 53) - 1}
var indexPool = []uint64{0, 1, 255, 256, 65535}

func pickS(r *rand.Rand, l []string) string { return l[r.Intn(len(l))] }

func genValue(r *rand.Rand) uint64 {
	if r.Intn(3) == 0 {
		return r.Uint64()
	}
	return valuePool[r.Intn(len(valuePool))]
}

func genTime(r *rand.Rand) int64 {
	if r.Intn(3) == 0 {
		return int64(r.Uint64())
	}
	return timePool[r.Intn(len(timePool))]
}

func genIndex(r *rand.Rand) uint64 {
	if r.Intn(3) == 0 {
		return uint64(r.Intn(65536))
	}
	return indexPool[r.Intn(len(indexPool))]
}

const hexLower = "0123456789abcdef"

func genHex(r *rand.Rand, n int, upper int) string {
	b := make([]byte, n)
	for i := range b {
		b[i] = hexLower[r.Intn(16)]
	}
	s := string(b)
	switch upper {
	case 1:
		return strings.ToUpper(s)
	case 2:
		// mixed case
		for i := range b {
			if r.Intn(2) == 0 && b[i] >= 'a' {
				b[i] -= 32
			}
		}
		return string(b)
	}
	return s
}

func genTxId(r *rand.Rand) string {
	switch r.Intn(8) {
	case 0:
		return ""
	case 1:
		return genHex(r, 64, 1)
	case 2:
		return pickS(r, addressPool)
	}
	return genHex(r, 64, 0)
}

func genSig(r *rand.Rand) string {
	switch r.Intn(6) {
	case 0:
		return strings.Repeat("0", 128)
	case 1: // leading-zero halves
		return strings.Repeat("0", 40) + genHex(r, 24, 0) + strings.Repeat("0", 63) + "1"
	case 2:
		return genHex(r, 128, 1)
	case 3:
		return genHex(r, 128, 2)
	case 4:
		return strings.Repeat("f", 128)
	}
	return genHex(r, 128, 0)
}

func genPk(r *rand.Rand) string {
	pk := walletOf(r.Intn(6)).PubHex // "0x04…" lower case
	switch r.Intn(5) {
	case 0:
		return "0x" + strings.ToUpper(pk[2:])
	case 1:
		return "0X" + pk[2:]
	case 2:
		b := []byte(pk)
		for i := 2; i < len(b); i++ {
			if r.Intn(2) == 0 && b[i] >= 'a' && b[i] <= 'f' {
				b[i] -= 32
			}
		}
		return string(b)
	}
	return pk
}

func genOutput(r *rand.Rand) *jv {
	return jobj().set("address", jstr(pickS(r, addressPool))).set("is_yielding", jbool(r.Intn(2) == 0)).set("value", juint(genValue(r)))
}

func genInput(r *rand.Rand) *jv {
	return jobj().set("output_index", juint(genIndex(r))).set("transaction_id", jstr(genTxId(r))).
		set("public_key", jstr(genPk(r))).set("signature", jstr(genSig(r)))
}

func genUtxo(r *rand.Rand) *jv {
	return jobj().set("address", jstr(pickS(r, addressPool))).set("timestamp", jint(genTime(r))).set("is_yielding", jbool(r.Intn(2) == 0)).
		set("output_index", juint(genIndex(r))).set("transaction_id", jstr(genTxId(r))).set("value", juint(genValue(r)))
}

// a list field: nil / empty / n elements
func genList(r *rand.Rand, min, max int, elem func() *jv) *jv {
	if min == 0 {
		switch r.Intn(4) {
		case 0:
			return jnull()
		case 1:
			return jarr()
		}
	}
	n := min
	if max > min {
		n += r.Intn(max - min + 1)
	}
	if n == 0 {
		n = 1
	}
	a := jarr()
	for i := 0; i < n; i++ {
		a.arr = append(a.arr, elem())
	}
	return a
}

func genTx(r *rand.Rand) *jv {
	tx := jobj().set("id", jstr(""))
	if r.Intn(3) == 0 {
		// reward shape: no inputs (null or []), exactly one output
		if r.Intn(2) == 0 {
			tx.set("inputs", jnull())
		} else {
			tx.set("inputs", jarr())
		}
		tx.set("outputs", jarr(genOutput(r)))
	} else {
		tx.set("inputs", genList(r, 1, 3, func() *jv { return genInput(r) }))
		tx.set("outputs", genList(r, 1, 3, func() *jv { return genOutput(r) }))
	}
	tx.set("timestamp", jint(genTime(r)))
	if id := realId(tx.bytes()); id != "" {
		setFirstKey(tx, "id", jstr(id))
	}
	return tx
}

func genStrings(r *rand.Rand) *jv {
	return genList(r, 0, 3, func() *jv { return jstr(pickS(r, addressPool)) })
}

func genBlock(r *rand.Rand, prev *jv) *jv {
	b := jobj()
	if prev != nil {
		b.set("previous_hash", prev)
	} else {
		h := jarr()
		mode := r.Intn(3)
		for i := 0; i < 32; i++ {
			switch mode {
			case 0:
				h.arr = append(h.arr, jnum("0"))
			case 1:
				h.arr = append(h.arr, jnum("255"))
			default:
				h.arr = append(h.arr, juint(uint64(r.Intn(256))))
			}
		}
		b.set("previous_hash", h)
	}
	b.set("added_registered_addresses", genStrings(r)).set("removed_registered_addresses", genStrings(r)).
		set("timestamp", jint(genTime(r))).set("transactions", genList(r, 0, 3, func() *jv { return genTx(r) }))
	return b
}

// spellings of the same value
func respell(r *rand.Rand, v *jv, how int) []byte {
	switch how {
	case 1: // white space everywhere
		var w strings.Builder
		spellWS(&w, v, r)
		return []byte(w.String())
	case 2: // keys of every object in another order
		c := v.clone()
		shuffleKeys(r, c)
		return c.bytes()
	case 3: // every ASCII letter of strings as \uXXXX, '/' as \/
		c := v.clone()
		var w strings.Builder
		spellEsc(&w, c)
		return []byte(w.String())
	}
	return v.bytes()
}

func spellWS(w *strings.Builder, v *jv, r *rand.Rand) {
	ws := func() { w.WriteString([]string{"", " ", "\n", "\t ", "\r\n"}[r.Intn(5)]) }
	ws()
	switch v.k {
	case 'a':
		w.WriteByte('[')
		for i, x := range v.arr {
			if i > 0 {
				w.WriteByte(',')
			}
			spellWS(w, x, r)
		}
		ws()
		w.WriteByte(']')
	case 'o':
		w.WriteByte('{')
		for i, x := range v.vals {
			if i > 0 {
				w.WriteByte(',')
			}
			ws()
			w.Write(quote(v.keys[i]))
			ws()
			w.WriteByte(':')
			spellWS(w, x, r)
		}
		ws()
		w.WriteByte('}')
	default:
		w.Write(v.bytes())
	}
	ws()
}

func shuffleKeys(r *rand.Rand, v *jv) {
	switch v.k {
	case 'a':
		for _, x := range v.arr {
			shuffleKeys(r, x)
		}
	case 'o':
		r.Shuffle(len(v.keys), func(i, j int) {
			v.keys[i], v.keys[j] = v.keys[j], v.keys[i]
			v.vals[i], v.vals[j] = v.vals[j], v.vals[i]
		})
		for _, x := range v.vals {
			shuffleKeys(r, x)
		}
	}
}

func spellEsc(w *strings.Builder, v *jv) {
	switch v.k {
	case 's':
		w.WriteByte('"')
		q := string(quote(v.s))
		q = q[1 : len(q)-1]
		for i := 0; i < len(q); i++ {
			c := q[i]
			switch {
			case c == '\\': // keep Go's own escape sequence
				w.WriteByte(c)
				i++
				w.WriteByte(q[i])
				if q[i] == 'u' {
					w.WriteString(q[i+1 : i+5])
					i += 4
				}
			case c == '/':
				w.WriteString("\\/")
			case (c >= 'a' && c <= 'z') || (c >= 'A' && c <= 'Z'):
				fmt.Fprintf(w, "\\u%04X", c)
			default:
				w.WriteByte(c)
			}
		}
		w.WriteByte('"')
	case 'a':
		w.WriteByte('[')
		for i, x := range v.arr {
			if i > 0 {
				w.WriteByte(',')
			}
			spellEsc(w, x)
		}
		w.WriteByte(']')
	case 'o':
		w.WriteByte('{')
		for i, x := range v.vals {
			if i > 0 {
				w.WriteByte(',')
			}
			w.Write(quote(v.keys[i]))
			w.WriteByte(':')
			spellEsc(w, x)
		}
		w.WriteByte('}')
	default:
		w.Write(v.bytes())
	}
}

// fidelityCases generates n values per wire type, each in four spellings.
func fidelityCases(r *rand.Rand, n int) []caseSpec {
	var res []caseSpec
	add := func(typ string, v *jv, variant string) {
		for how := 0; how < 4; how++ {
			res = append(res, caseSpec{Kind: "dec", Schema: typ, Mode: "whole", Pos: "$", Fault: "", Variant: fmt.Sprintf("%s/spelling%d", variant, how),
				MsgHex: hx(respell(r, v, how)), Expect: "ok"})
		}
	}
	for i := 0; i < n; i++ {
		add("output", genOutput(r), "generated")
		add("input", genInput(r), "generated")
		add("inputinfo", jobj().set("output_index", juint(genIndex(r))).set("transaction_id", jstr(genTxId(r))), "generated")
		add("utxo", genUtxo(r), "generated")
		tx := genTx(r)
		add("transaction", tx, "generated")
		add("request", jobj().set("Transaction", tx.clone()).set("TransactionBroadcasterTarget", jstr(pickS(r, addressPool))), "generated")
		add("block", genBlock(r, nil), "generated")
		add("blocks", genList(r, 0, 3, func() *jv { return genBlock(r, nil) }), "generated")
		add("transactions", genList(r, 0, 3, func() *jv { return genTx(r) }), "generated")
		add("utxos", genList(r, 0, 3, func() *jv { return genUtxo(r) }), "generated")
		add("targets", genStrings(r), "generated")
		add("height", juint(genValue(r)), "generated")
		add("timestamp", jint(genTime(r)), "generated")
		add("address", jstr(pickS(r, addressPool)), "generated")
	}
	return res
}
