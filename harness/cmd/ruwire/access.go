package main

// The access node's REAL controllers behind a REAL gin engine (httptest), talking to the REAL validator
// controllers of a world through an in-process application.Sender.

import (
	"bytes"
	"encoding/json"
	"fmt"
	"net/http"
	"net/http/httptest"
	"runtime"
	"strings"
	"time"

	"github.com/gin-gonic/gin"
	apayment "github.com/my-cloud/ruthenium/accessnode/presentation/api/payment"
	awallet "github.com/my-cloud/ruthenium/accessnode/presentation/api/wallet"
	"github.com/my-cloud/ruthenium/validatornode/application"
)

type viaSender struct {
	w        *world
	override map[string][]byte // faulted validator answers: "utxos", "blocks", "transactions"
	served   map[string][]byte // what was answered (for the model)
	hung     bool
}

func (s *viaSender) Target() string { return "127.0.0.1:7100" }

func (s *viaSender) answer(kind string, real func() ([]byte, error)) ([]byte, error) {
	if b, ok := s.override[kind]; ok {
		s.served[kind] = b
		return b, nil
	}
	b, err := real()
	if err == nil {
		s.served[kind] = b
	}
	return b, err
}

func (s *viaSender) GetBlocks(h uint64) ([]byte, error) {
	return s.answer("blocks", func() ([]byte, error) {
		q, _ := json.Marshal(h)
		res, err := s.w.blocks.HandleBlocksRequest(bg, data(q))
		return res.GetBytes(), err
	})
}

func (s *viaSender) GetFirstBlockTimestamp() (int64, error) {
	res, err := s.w.blocks.HandleFirstBlockTimestampRequest(bg, data(nil))
	if err != nil {
		return 0, err
	}
	var ts int64
	err = json.Unmarshal(res.GetBytes(), &ts)
	return ts, err
}

func (s *viaSender) GetSettings() ([]byte, error) { return nil, fmt.Errorf("n/a") }
func (s *viaSender) SendTargets([]string) error   { return nil }

func (s *viaSender) AddTransaction(b []byte) error {
	s.served["forwarded"] = b
	base := runtime.NumGoroutine()
	_, err := s.w.txs.HandleTransactionRequest(bg, data(b))
	if err == nil {
		if _, hung := s.w.awaitAdd(base); hung {
			s.hung = true
		}
	}
	return err
}

func (s *viaSender) GetTransactions() ([]byte, error) {
	return s.answer("transactions", func() ([]byte, error) {
		res, err := s.w.txs.HandleTransactionsRequest(bg, data(nil))
		return res.GetBytes(), err
	})
}

func (s *viaSender) GetUtxos(address string) ([]byte, error) {
	return s.answer("utxos", func() ([]byte, error) {
		q, _ := json.Marshal(address)
		res, err := s.w.utxos.HandleUtxosRequest(bg, data(q))
		return res.GetBytes(), err
	})
}

var _ application.Sender = (*viaSender)(nil)

type fixedClock struct{ now int64 }

func (c *fixedClock) Now() time.Time { return time.Unix(0, c.now) }

type access struct {
	sender   *viaSender
	engine   *gin.Engine
	ginPanic string
}

func newAccess(w *world) *access {
	a := &access{sender: &viaSender{w: w, override: map[string][]byte{}, served: map[string][]byte{}}}
	clock := &fixedClock{now: w.last() + w.s.Interval/2}
	log := w.n.Log
	info := apayment.NewInfoController(a.sender, w.s, clock, log)
	progress := apayment.NewProgressController(a.sender, w.s, clock, log)
	tx := apayment.NewTransactionController(a.sender, log)
	txs := apayment.NewTransactionsController(a.sender, log)
	amount := awallet.NewAmountController(a.sender, w.s, clock, log)
	// the routes of accessnode/presentation/node.go; gin.Default's recovery middleware, with the panic recorded
	gin.SetMode(gin.ReleaseMode)
	r := gin.New()
	r.Use(gin.CustomRecovery(func(c *gin.Context, err any) {
		a.ginPanic = fmt.Sprint(err)
		c.AbortWithStatus(http.StatusInternalServerError)
	}))
	r.POST("/transaction", func(c *gin.Context) { tx.PostTransaction(c.Writer, c.Request) })
	r.GET("/transactions", func(c *gin.Context) { txs.GetTransactions(c.Writer, c.Request) })
	r.GET("/transaction/info", func(c *gin.Context) { info.GetTransactionInfo(c.Writer, c.Request) })
	r.PUT("/transaction/output/progress", func(c *gin.Context) { progress.GetTransactionProgress(c.Writer, c.Request) })
	r.GET("/wallet/amount", func(c *gin.Context) { amount.GetWalletAmount(c.Writer, c.Request) })
	a.engine = r
	return a
}

func (a *access) call(method, target string, body []byte) (status int, out []byte, panicked string, hung bool) {
	req := httptest.NewRequest(method, target, bytes.NewReader(body))
	req.Header.Set("Content-Type", "application/json")
	rec := httptest.NewRecorder()
	a.ginPanic = ""
	done := make(chan struct{})
	go func() {
		defer close(done)
		a.engine.ServeHTTP(rec, req)
	}()
	select {
	case <-done:
	case <-time.After(10 * time.Second):
		return 0, nil, "", true
	}
	return rec.Code, rec.Body.Bytes(), a.ginPanic, a.sender.hung
}

func httpClass(status int, panicked string) string {
	switch {
	case panicked != "":
		return "panic"
	case status >= 200 && status < 300:
		return "ok"
	default:
		return "err"
	}
}

// runAccess: schemas post | progress (body faults), info | amount | transactions (query variants),
// progress-ans | wallet-ans (a faulted answer of the trusted validator: observation only).
func runAccess(c *caseSpec, d *driver) *caseResult {
	r := &caseResult{}
	w, err := boot()
	if err != nil {
		c.fail(r, "harness-setup", err.Error(), nil)
		return r
	}
	a := newAccess(w)
	before, _ := snap(w.n)
	w.drainSignals()
	var msg []byte
	var status int
	var out []byte
	var panicked string
	var hung bool
	var m *modelAns
	trusted := false
	switch c.Schema {
	case "post", "progress":
		msg, _, err = derive(w, c)
		if err != nil {
			r.Note, r.Impl, r.Model = "skipped: "+err.Error(), "skip", "skip"
			return r
		}
		if c.Schema == "post" {
			status, out, panicked, hung = a.call("POST", "/transaction", msg)
			m, err = d.ask("h:post", msg, []byte(a.sender.Target()))
		} else {
			status, out, panicked, hung = a.call("PUT", "/transaction/output/progress", msg)
			m, err = d.ask("h:progress", msg, orDefault(a.sender.served["utxos"]), orDefault(a.sender.served["blocks"]), orDefault(a.sender.served["transactions"]))
		}
	case "info", "amount", "transactions":
		target := map[string]string{"info": "/transaction/info", "amount": "/wallet/amount", "transactions": "/transactions"}[c.Schema] + c.Variant
		msg = []byte(target)
		status, out, panicked, hung = a.call("GET", target, nil)
		m, err = d.ask("h:wallet", orDefault(a.sender.served["utxos"]))
	case "progress-ans", "wallet-ans":
		trusted = true
		kv := strings.SplitN(c.Variant, "=", 2)
		a.sender.override[kv[0]] = []byte(kv[1])
		msg = []byte(c.Variant)
		if c.Schema == "progress-ans" {
			base, _ := w.baseMessage("progress")
			body := base.v
			if kv[0] != "utxos" {
				// search an output that is not confirmed, so that the blocks / pool answers are read
				setFirstKey(body, "transaction_id", jstr(strings.Repeat("ab", 32)))
			}
			status, out, panicked, hung = a.call("PUT", "/transaction/output/progress", body.bytes())
			m, err = d.ask("h:progress", body.bytes(), orDefault(a.sender.served["utxos"]), orDefault(a.sender.served["blocks"]), orDefault(a.sender.served["transactions"]))
		} else {
			q := "/wallet/amount?address=" + w.w0.Address
			if strings.HasSuffix(c.Pos, "info") {
				q = "/transaction/info?address=" + w.w0.Address + "&value=1000&consolidation=false"
			}
			status, out, panicked, hung = a.call("GET", q, nil)
			m, err = d.ask("h:wallet", orDefault(a.sender.served["utxos"]))
		}
	default:
		c.fail(r, "harness-setup", "unknown access schema "+c.Schema, nil)
		return r
	}
	r.Sent = hx(msg)
	if err != nil {
		c.fail(r, "driver-error", err.Error(), msg)
		return r
	}
	after, _ := snap(w.n)
	impl := httpClass(status, panicked)
	r.Impl, r.Model, r.Compared = impl, m.Class, 1
	if hung {
		c.fail(r, "hung", "the request did not complete within 10 s", msg)
	}
	if impl == "panic" {
		if trusted {
			r.Obs = append(r.Obs, fmt.Sprintf("access-node controller panicked on a faulted answer of its (trusted) validator, gin answered %d: %s: %s", status, c.Variant, panicked))
		} else {
			c.fail(r, "panic", fmt.Sprintf("an access-node controller panicked on client input (gin recovery answered %d): %s", status, panicked), msg)
		}
	}
	if m.Class == "panic" && !trusted {
		c.fail(r, "model-panic", "the model predicts a panic at "+m.Site, msg)
	}
	switch c.Schema {
	case "info", "amount", "transactions", "wallet-ans":
		// the selection logic of the info route is C18's subject: only the panic class is compared here
		if (impl == "panic") != (m.Class == "panic") {
			c.fail(r, "class-mismatch", fmt.Sprintf("implementation %s (status %d), model %s", impl, status, m.Class), msg)
		}
	default:
		if impl != m.Class {
			c.fail(r, "class-mismatch", fmt.Sprintf("implementation %s (status %d %s), model %s %s", impl, status, clip(string(out)), m.Class, m.Site), msg)
		}
	}
	changed := !sameState(before, after)
	switch {
	case c.Schema == "post" && impl == "ok":
		admitted := ""
		for _, call := range m.Calls {
			if strings.HasPrefix(call, "pool ") {
				admitted = strings.Fields(call)[1]
			}
		}
		if fw := a.sender.served["forwarded"]; string(fw) != m.Enc {
			c.fail(r, "forwarded-request-differs", fmt.Sprintf("request forwarded to the validator:\n impl  %s\n model %s", clip(string(fw)), clip(m.Enc)), msg)
		}
		if changed {
			want := append(append([]string(nil), before.Pool...), admitted)
			if admitted == "" || !eqStrings(after.Pool, want) {
				c.fail(r, "unexpected-state-change", fmt.Sprintf("pool before %v after %v, model admits %q", before.Pool, after.Pool, admitted), msg)
			}
			r.Obs = append(r.Obs, "admitted")
		}
	case changed:
		c.fail(r, "state-changed-on-error", fmt.Sprintf("a %s request changed the validator's state (status %d)", c.Schema, status), msg)
	}
	if (c.Schema == "progress" || c.Schema == "progress-ans") && impl == "ok" {
		var pi struct {
			TransactionStatus string `json:"transaction_status"`
		}
		_ = json.Unmarshal(out, &pi)
		want := ""
		for _, call := range m.Calls {
			want = strings.TrimPrefix(call, "status ")
		}
		if pi.TransactionStatus != want {
			c.fail(r, "progress-differs", fmt.Sprintf("transaction_status: implementation %q, model %q", pi.TransactionStatus, want), msg)
		}
	}
	if fp, notes := followUps(w); fp != "" {
		c.fail(r, "followup-panic", "an operation after the request panicked: "+fp, msg)
	} else {
		for _, nt := range notes {
			if strings.HasPrefix(nt, "peer-did-not-adopt") {
				c.fail(r, "stored-chain-refused-by-peer", nt, msg)
			}
		}
	}
	r.Key = c.label() + "|" + c.Variant + "|" + impl + "|" + fmt.Sprint(status)
	return r
}

func orDefault(b []byte) []byte {
	if b == nil {
		return []byte("[]")
	}
	return b
}
