package main

// The concrete counterexamples of Codec.Props (`…_counterexample` theorems) replayed on the REAL code.
// A witness is EXPECTED to reproduce: the model mirrors the code as it is.  When one stops reproducing the
// code has changed and the model (and the `_full` statement it blocks) must be revisited: that is reported as
// a failure `…/counterexample-no-longer-reproduces/…`.  Reproduced witnesses are listed under "findings".

import (
	"encoding/json"
	"fmt"
	"strings"

	"github.com/my-cloud/ruthenium/validatornode/application"
	"github.com/my-cloud/ruthenium/validatornode/domain/ledger"

	"ruverif/internal/node"
)

func finding(id, theorem, detail string) {
	sum.Findings = append(sum.Findings, map[string]string{"id": id, "lean": theorem, "detail": detail})
}

func witnessFail(id, detail string) {
	sum.Failures = append(sum.Failures, failure{Kind: "tie", Signature: propId + "/counterexample-no-longer-reproduces/" + id, Detail: detail,
		Replay: map[string]interface{}{"tool": "ruwire", "witness": id}, FoundInput: false})
}

func hashJV(h [32]byte) *jv {
	a := jarr()
	for _, x := range h {
		a.arr = append(a.arr, juint(uint64(x)))
	}
	return a
}

func runWitnesses(d *driver, only string) {
	want := func(id string) bool { return only == "" || only == id }
	w, err := boot()
	if err != nil {
		sum.Fatal = "witness boot: " + err.Error()
		return
	}
	last := w.last()
	next := last + w.s.Interval
	host := w.n.AllBlocks()
	tip := host[len(host)-1]

	// the attacker's transaction: spends w1's confirmed output with the ATTACKER's key and a made-up signature,
	// and pays out 1000 times the input
	theft := jobj().set("id", jstr("")).
		set("inputs", jarr(jobj().set("output_index", jnum("1")).set("transaction_id", jstr(w.splitId)).
			set("public_key", jstr(w.w2.PubHex)).set("signature", jstr(strings.Repeat("1", 128))))).
		set("outputs", jarr(jobj().set("address", jstr(w.w2.Address)).set("is_yielding", jbool(false)).set("value", jnum("4000000000")))).
		set("timestamp", jint(next))
	setFirstKey(theft, "id", jstr(realId(theft.bytes())))
	decoy := mustJV(mustMarshal(node.RewardRaw(w.w2.Address, false, next, 0)))
	evil := jobj().set("previous_hash", hashJV(node.HashOf(tip))).set("added_registered_addresses", jnull()).
		set("removed_registered_addresses", jnull()).set("timestamp", jint(next)).
		set("transactions", jarr(decoy)).set("transactions", jarr(theft))

	if want("stale-reward-fields") {
		sum.Evaluations++
		// decoder level: the object decoded from the first "transactions" is re-used by the second
		msg := evil.bytes()
		impl := realDecode("block", "whole", msg)
		m, err := d.ask("dec:block:whole", msg)
		switch {
		case err != nil:
			witnessFail("stale-reward-fields", err.Error())
		case impl.class == "ok" && len(impl.rewards) == 1 && impl.rewards[0] && !impl.stable:
			if m.Class != "ok" || len(m.Rewards) != 1 || !m.Rewards[0] || m.Stable {
				sum.Failures = append(sum.Failures, failure{Kind: "diff", Signature: propId + "/class-mismatch/witness/stale-reward-fields",
					Detail: fmt.Sprintf("model disagrees with the implementation on the witness: %+v", m), Replay: map[string]interface{}{"tool": "ruwire", "witness": "stale-reward-fields"}, FoundInput: true})
			}
			finding("stale-reward-fields", "C15_stable_counterexample / C14_reward_shape_counterexample",
				"a block whose \"transactions\" key occurs twice ([reward] then [spend]) decodes to a transaction WITH inputs whose HasReward() is true "+
					"(the *Transaction object of the first list is re-used and UnmarshalJSON never clears the reward fields); re-encoding and decoding again gives HasReward() = false: "+printable(msg))
		default:
			witnessFail("stale-reward-fields", fmt.Sprintf("decode of the duplicated-key block: class %s rewards %v stable %v", impl.class, impl.rewards, impl.stable))
		}
	}

	if want("stale-reward-adopted") {
		sum.Evaluations++
		// end to end: a neighbour serves [tip, evil]; verifyBlock takes the spend for the block's reward transaction
		// (no signature check, no fee check), the chain is adopted, the next tick confirms the theft
		ans := jarr(mustJV(mustMarshal(tip)), evil).bytes()
		w.n.Senders.Set([]application.Sender{&node.Sender{TargetValue: "127.0.0.1:7666", Blocks: func(h uint64) ([]byte, error) {
			if h == uint64(len(host)-1) {
				return ans, nil
			}
			return nil, fmt.Errorf("no")
		}}})
		p := guarded(func() {
			w.n.Chain.Update(next)
			w.n.Senders.Set(nil)
			w.n.Pool.Validate(next + w.s.Interval)
		})
		got := w.n.AllBlocks()
		var stolen uint64
		for _, u := range w.n.Utxos.Utxos(w.w2.Address) {
			stolen += u.InitialValue()
		}
		victimLeft := len(w.n.Utxos.Utxos(w.w1.Address))
		if p == "" && len(got) == len(host)+2 && stolen == 4000000000 && victimLeft == 0 {
			// an honest peer refuses the chain the victim now serves
			peer, _ := newNode("127.0.0.1:7005", w.s, w.w1.Address)
			peer.Pool.Validate(T0)
			peer.Senders.Set([]application.Sender{serve(w.n)})
			peer.Chain.Update(w.last())
			finding("stale-reward-adopted", "C15_stable_counterexample",
				fmt.Sprintf("a neighbour's answer with a duplicated \"transactions\" key made the REAL Blockchain.Update adopt a block whose only transaction spends another wallet's output "+
					"with a made-up signature and pays out 4000000000 for a 4000000 input: after the next tick the attacker's address holds %d, the owner's address has %d outputs left; "+
					"an honest peer syncing from this node afterwards holds %d blocks (the victim %d). Answer served: %s", stolen, victimLeft, len(peer.AllBlocks()), len(got), printable(ans)))
		} else {
			witnessFail("stale-reward-adopted", fmt.Sprintf("panic=%q blocks %d→%d attacker balance %d owner outputs %d log %v", clip(p), len(host), len(got), stolen, victimLeft, tailOf(w.n.Log.Snapshot(), 3)))
		}
	}

	if want("stale-strings") {
		sum.Evaluations++
		msg := []byte(`{"added_registered_addresses":["a","b"],"added_registered_addresses":[null],"added_registered_addresses":[null,null]}`)
		impl := realDecode("block", "whole", msg)
		m, err := d.ask("dec:block:whole", msg)
		if err != nil || impl.class != "ok" || !strings.Contains(string(impl.enc), `"added_registered_addresses":["a","b"]`) {
			witnessFail("stale-strings", fmt.Sprintf("%v %s %s", err, impl.class, impl.enc))
		} else {
			if m.Enc != string(impl.enc) {
				sum.Failures = append(sum.Failures, failure{Kind: "diff", Signature: propId + "/class-mismatch/witness/stale-strings", Detail: "model: " + m.Enc,
					Replay: map[string]interface{}{"tool": "ruwire", "witness": "stale-strings"}, FoundInput: true})
			}
			finding("stale-strings", "C15_stale_elements_example", "[\"a\",\"b\"] then [null] then [null,null] under one key decodes to [\"a\",\"b\"]: encoding/json re-uses what the backing array holds; the model does the same")
		}
	}

	if want("long-hash") {
		sum.Evaluations++
		h := jarr()
		for i := 0; i < 34; i++ {
			h.arr = append(h.arr, juint(uint64(i+1)))
		}
		h.arr[33] = jstr("not a number")
		msg := jobj().set("previous_hash", h).bytes()
		impl := realDecode("block", "whole", msg)
		m, err := d.ask("dec:block:whole", msg)
		if err != nil || impl.class != "ok" || m.Class != "ok" || m.Enc != string(impl.enc) {
			witnessFail("long-hash", fmt.Sprintf("a 34-element previous_hash: implementation %s, model %v %v", impl.class, m, err))
		} else {
			finding("long-hash", "C15_long_hash_example", "a previous_hash with 34 elements (the 34th a string) is accepted: elements beyond 32 are skipped unread; re-encoding has 32")
		}
	}

	if want("access-null-utxo") {
		sum.Evaluations++
		c := &caseSpec{Kind: "access", Schema: "wallet-ans", Pos: "validator-answer/amount", Fault: "trusted-answer", Variant: "utxos=[null]"}
		r := runAccess(c, d)
		if r.Impl == "panic" && r.Model == "panic" {
			finding("access-null-utxo", "C14_access_trusted_answer_counterexample",
				"a null entry in the validator's UTXO list makes GetWalletAmount / GetTransactionInfo / GetTransactionProgress dereference nil; gin's recovery answers 500, the process survives. "+
					"The validator is trusted by its access node and never serves such a list: "+strings.Join(r.Obs, "; "))
		} else {
			witnessFail("access-null-utxo", fmt.Sprintf("implementation %s, model %s", r.Impl, r.Model))
		}
	}
}

func mustMarshal(v interface{}) []byte {
	b, err := json.Marshal(v)
	if err != nil {
		panic(err)
	}
	return b
}

var _ = ledger.NewOutput
