package main

// A REAL validator (internal/node assembly, with a signalling SendersManager so that the goroutines started
// by the handlers can be awaited deterministically), the base messages of every schema, and the integrity
// fix-ups (ids and previous hashes recomputed by the real code after a fault was placed).

import (
	"context"
	"crypto/sha256"
	"encoding/json"
	"fmt"
	"runtime"
	"strings"
	"time"

	gp2p "github.com/leprosus/golang-p2p"

	"github.com/my-cloud/ruthenium/validatornode/application"
	"github.com/my-cloud/ruthenium/validatornode/application/validation"
	"github.com/my-cloud/ruthenium/validatornode/application/verification"
	"github.com/my-cloud/ruthenium/validatornode/domain/ledger"
	"github.com/my-cloud/ruthenium/validatornode/presentation/api/history"
	"github.com/my-cloud/ruthenium/validatornode/presentation/api/network"
	"github.com/my-cloud/ruthenium/validatornode/presentation/api/payment"
	"github.com/my-cloud/ruthenium/validatornode/presentation/api/wallet"

	"ruverif/internal/node"
)

const T0 = int64(1_700_000_040_000_000_000) // a multiple of one minute

type sigSenders struct {
	inner *node.Senders
	ch    chan string
}

func (s *sigSenders) HostTarget() string            { return s.inner.HostTarget() }
func (s *sigSenders) Senders() []application.Sender { return s.inner.Senders() }

func (s *sigSenders) Incentive(t string) {
	s.inner.Incentive(t)
	select {
	case s.ch <- "incentive:" + t:
	default:
	}
}

func (s *sigSenders) AddTargets(t []string) {
	s.inner.AddTargets(t)
	b, _ := json.Marshal(t)
	select {
	case s.ch <- "targets:" + string(b):
	default:
	}
}

var _ application.SendersManager = (*sigSenders)(nil)

var wallets = map[int]*node.Wallet{}

func walletOf(i int) *node.Wallet {
	if w, ok := wallets[i]; ok {
		return w
	}
	w := node.NewWallet(i)
	wallets[i] = w
	return w
}

type world struct {
	n          *node.Node
	sig        *sigSenders
	s          *node.Settings
	w0, w1, w2 *node.Wallet
	splitId    string // transaction with two confirmed outputs: [0] to w0, [1] to w1
	txs        *payment.TransactionsController
	blocks     *history.BlocksController
	senders    *network.SendersController
	utxos      *wallet.UtxosController
}

func newNode(name string, s *node.Settings, validator string) (*node.Node, *sigSenders) {
	n := &node.Node{Name: name, Settings: s, Validator: validator}
	n.Humans = &node.Humans{Invalid: map[string]bool{}, Failing: map[string]bool{}}
	n.Log = &node.Logger{}
	n.Senders = &node.Senders{Host: name}
	sig := &sigSenders{n.Senders, make(chan string, 256)}
	n.Reg = verification.NewAddressesRegistry(n.Humans, n.Log)
	n.Utxos = verification.NewUtxosRegistry(s)
	n.Chain = verification.NewBlockchain(n.Reg, s, sig, n.Utxos, n.Log)
	n.Pool = validation.NewTransactionsPool(n.Chain, s, sig, n.Utxos, validator, n.Log)
	return n, sig
}

func settings() *node.Settings {
	s := node.DefaultSettings()
	s.Timeout = 150 * time.Millisecond
	return s
}

// boot: 4 blocks; block 2 holds a transaction splitting the genesis output, block 3 confirms it.
func boot() (*world, error) {
	s := settings()
	w := &world{s: s, w0: walletOf(0), w1: walletOf(1), w2: walletOf(2)}
	w.n, w.sig = newNode("127.0.0.1:7001", s, w.w0.Address)
	n := w.n
	n.Pool.Validate(T0)
	n.Pool.Validate(T0 + s.Interval)
	b := n.AllBlocks()
	if len(b) != 2 {
		return nil, fmt.Errorf("boot: %d blocks after two ticks", len(b))
	}
	gid := b[0].Transactions()[0].Id()
	split, _, err := node.MakeTx([]node.Spend{{TxId: gid, Index: 0, By: w.w0}},
		[]node.RawOutput{{Address: w.w0.Address, IsYielding: false, Value: 4_000_000}, {Address: w.w1.Address, IsYielding: false, Value: 4_000_000}}, T0+s.Interval)
	if err != nil {
		return nil, err
	}
	n.Pool.AddTransaction(split, "", "")
	if len(n.Pool.Transactions()) != 1 {
		return nil, fmt.Errorf("boot: split transaction refused: %v", n.Log.Snapshot())
	}
	n.Pool.Validate(T0 + 2*s.Interval)
	n.Pool.Validate(T0 + 3*s.Interval)
	if len(n.AllBlocks()) != 4 {
		return nil, fmt.Errorf("boot: %d blocks", len(n.AllBlocks()))
	}
	w.splitId = split.Id()
	n.Log.Drain()
	w.drainSignals()
	w.txs = payment.NewTransactionsController(w.sig, n.Pool)
	w.blocks = history.NewBlocksController(n.Chain)
	w.senders = network.NewSendersController(w.sig)
	w.utxos = wallet.NewUtxosController(n.Utxos)
	return w, nil
}

func (w *world) drainSignals() {
	for {
		select {
		case <-w.sig.ch:
		default:
			return
		}
	}
}

func (w *world) last() int64 { return w.n.Chain.LastBlockTimestamp() }

// the base transaction of the matrix: two inputs would need two outputs of one owner; it spends output 0 of
// the split (owner w0) and pays w2 and w0.
func (w *world) baseTx(ts int64) (*ledger.Transaction, *jv, error) {
	tx, _, err := node.MakeTx([]node.Spend{{TxId: w.splitId, Index: 0, By: w.w0}},
		[]node.RawOutput{{Address: w.w2.Address, IsYielding: false, Value: 1_000_000}, {Address: w.w0.Address, IsYielding: false, Value: 2_900_000}}, ts)
	if err != nil {
		return nil, nil, err
	}
	b, _ := json.Marshal(tx)
	v, err := parseJV(b)
	return tx, v, err
}

func (w *world) otherTx(ts int64) (*ledger.Transaction, error) {
	tx, _, err := node.MakeTx([]node.Spend{{TxId: w.splitId, Index: 1, By: w.w1}},
		[]node.RawOutput{{Address: w.w2.Address, IsYielding: false, Value: 3_500_000}}, ts)
	return tx, err
}

func serve(n *node.Node) *node.Sender {
	return &node.Sender{TargetValue: n.Name, Blocks: func(h uint64) ([]byte, error) { return n.ServeBlocks(h) }}
}

// peerWithNext returns a peer that adopted the host's chain and produced the next block holding tx.
func (w *world) peerWithNext(tx *ledger.Transaction) (*node.Node, error) {
	p, _ := newNode("127.0.0.1:7002", w.s, w.w2.Address)
	p.Pool.Validate(T0)
	p.Senders.Set([]application.Sender{serve(w.n)})
	p.Chain.Update(w.last())
	if len(p.AllBlocks()) != len(w.n.AllBlocks()) {
		return nil, fmt.Errorf("peer did not adopt the host chain: %v", p.Log.Snapshot())
	}
	p.Senders.Set(nil)
	if tx != nil {
		p.Pool.AddTransaction(tx, "", "")
		if len(p.Pool.Transactions()) != 1 {
			return nil, fmt.Errorf("peer refused the base transaction: %v", p.Log.Snapshot())
		}
	}
	p.Pool.Validate(w.last() + w.s.Interval)
	return p, nil
}

// ---------------------------------------------------------------- base messages

// baseMessage returns the valid message of a schema on this world, and the context the model needs.
type baseMsg struct {
	v        *jv
	lastHost []byte // update: JSON of lastHostBlocks
	oldHost  []byte // update: JSON of oldHostBlocks
	now      int64  // update: the verification timestamp
}

func (w *world) baseMessage(schema string) (*baseMsg, error) {
	switch schema {
	case "txreq", "txreq-reward":
		var v *jv
		if schema == "txreq" {
			_, t, err := w.baseTx(w.last())
			if err != nil {
				return nil, err
			}
			v = t
		} else {
			r := node.RewardRaw(w.w2.Address, false, w.last(), 0)
			b, _ := json.Marshal(r)
			t, err := parseJV(b)
			if err != nil {
				return nil, err
			}
			v = t
		}
		return &baseMsg{v: jobj().set("Transaction", v).set("TransactionBroadcasterTarget", jstr("127.0.0.1:7009"))}, nil
	case "post":
		_, t, err := w.baseTx(w.last())
		if err != nil {
			return nil, err
		}
		return &baseMsg{v: t}, nil
	case "blocksreq":
		return &baseMsg{v: jnum("1")}, nil
	case "targets":
		return &baseMsg{v: jarr(jstr("127.0.0.1:7003"), jstr("127.0.0.1:7004"))}, nil
	case "utxosreq":
		return &baseMsg{v: jstr(w.w0.Address)}, nil
	case "progress":
		return &baseMsg{v: jobj().set("address", jstr(w.w0.Address)).set("timestamp", jint(T0)).set("is_yielding", jbool(false)).
			set("output_index", jnum("0")).set("transaction_id", jstr(w.splitId)).set("value", jnum("4000000"))}, nil
	case "update-ext", "update-full":
		tx, _, err := w.baseTx(w.last())
		if err != nil {
			return nil, err
		}
		p, err := w.peerWithNext(tx)
		if err != nil {
			return nil, err
		}
		host := w.n.AllBlocks()
		var ans, last, old []byte
		if schema == "update-ext" {
			ans, _ = p.ServeBlocks(uint64(len(host) - 1))
			last, _ = json.Marshal(host[len(host)-1:])
			old, _ = json.Marshal(host[:len(host)-1])
		} else {
			ans, _ = p.ServeBlocks(0)
			last, _ = json.Marshal(host[:len(host)-1])
			old = []byte("null")
		}
		v, err := parseJV(ans)
		if err != nil {
			return nil, err
		}
		return &baseMsg{v: v, lastHost: last, oldHost: old, now: w.last() + w.s.Interval}, nil
	}
	return nil, fmt.Errorf("unknown schema %s", schema)
}

// ---------------------------------------------------------------- integrity fix-ups

type preImage struct {
	Inputs    []*ledger.Input  `json:"inputs"`
	Outputs   []*ledger.Output `json:"outputs"`
	Timestamp int64            `json:"timestamp"`
}

func sha256Hex(b []byte) string {
	h := sha256.Sum256(b)
	return fmt.Sprintf("%x", h)
}

// realId: the id the real decoder will compute for this transaction text (the real decoders read the
// fields, the real marshalers render the pre-image); "" when the content does not decode.
func realId(txText []byte) (id string) {
	defer func() {
		if recover() != nil {
			id = ""
		}
	}()
	var m *preImage
	if err := json.Unmarshal(txText, &m); err != nil || m == nil {
		return ""
	}
	pre, err := json.Marshal(m)
	if err != nil {
		return ""
	}
	return sha256Hex(pre)
}

func setFirstKey(o *jv, key string, v *jv) bool {
	for i, k := range o.keys {
		if k == key {
			o.vals[i] = v
			return true
		}
	}
	return false
}

func hasPrefixPath(p, prefix path) bool {
	if len(prefix) > len(p) {
		return false
	}
	for i := range prefix {
		if p[i] != prefix[i] {
			return false
		}
	}
	return true
}

// txPaths: where transactions live in a message of the schema
func txPaths(schema string, root *jv) []path {
	switch schema {
	case "txreq", "txreq-reward":
		return []path{{{key: "Transaction", idx: -1}}}
	case "post":
		return []path{{}}
	case "update-ext", "update-full":
		var res []path
		if root.k != 'a' {
			return nil
		}
		for i, b := range root.arr {
			if b.k != 'o' {
				continue
			}
			for ki, k := range b.keys {
				if k == "transactions" && b.vals[ki].k == 'a' {
					for j := range b.vals[ki].arr {
						res = append(res, path{{idx: i}, {key: "transactions", idx: -1}, {idx: j}})
					}
					break
				}
			}
		}
		return res
	}
	return nil
}

// fixUp recomputes ids, then previous hashes, leaving the faulted field itself alone.
func fixUp(schema string, root *jv, fault path, faultName string) {
	if root == nil {
		return
	}
	for _, tp := range txPaths(schema, root) {
		tx := root.at(tp)
		if tx == nil || tx.k != 'o' {
			continue
		}
		idPath := append(append(path(nil), tp...), step{key: "id", idx: -1})
		if hasPrefixPath(fault, idPath) {
			continue // the fault is the id itself
		}
		if id := realId(tx.bytes()); id != "" {
			setFirstKey(tx, "id", jstr(id))
		}
	}
	if strings.HasPrefix(schema, "update") && root.k == 'a' {
		for i := 1; i < len(root.arr); i++ {
			cur := root.arr[i]
			if cur.k != 'o' {
				continue
			}
			hp := path{{idx: i}, {key: "previous_hash", idx: -1}}
			if hasPrefixPath(fault, hp) {
				continue
			}
			h, ok := realBlockHash(root.arr[i-1].bytes())
			if !ok {
				continue
			}
			a := jarr()
			for _, x := range h {
				a.arr = append(a.arr, juint(uint64(x)))
			}
			setFirstKey(cur, "previous_hash", a)
		}
	}
}

func realBlockHash(text []byte) (h [32]byte, ok bool) {
	defer func() {
		if recover() != nil {
			ok = false
		}
	}()
	var b *ledger.Block
	if err := json.Unmarshal(text, &b); err != nil || b == nil {
		return h, false
	}
	h, err := b.Hash()
	return h, err == nil
}

// ---------------------------------------------------------------- awaiting handler goroutines

// awaitAdd waits for the goroutine `go AddTransaction(…)`: it ends with the log line "failed to add transaction"
// or after Incentive(…) (then only marshalling and the fan-out to zero senders remain).
func (w *world) awaitAdd(base int) (signal string, hung bool) {
	deadline := time.Now().Add(3 * time.Second)
	for time.Now().Before(deadline) {
		select {
		case s := <-w.sig.ch:
			w.awaitGoroutines(base)
			return s, false
		default:
		}
		for _, l := range w.n.Log.Snapshot() {
			if strings.Contains(l, "failed to add transaction") {
				w.awaitGoroutines(base)
				return "refused", false
			}
		}
		time.Sleep(200 * time.Microsecond)
	}
	return "", true
}

func (w *world) awaitSignal(prefix string) (string, bool) {
	select {
	case s := <-w.sig.ch:
		return s, !strings.HasPrefix(s, prefix)
	case <-time.After(3 * time.Second):
		return "", true
	}
}

func (w *world) awaitGoroutines(base int) {
	for i := 0; i < 2000 && runtime.NumGoroutine() > base; i++ {
		time.Sleep(100 * time.Microsecond)
	}
}

func data(b []byte) gp2p.Data { return gp2p.Data{Bytes: b} }

var bg = context.Background()
