package main

// Structure-aware random mutation of valid messages at BYTE level (the trusted tokenizer boundary).

import (
	"bytes"
	"math/rand"
)

var fragments = []string{"null", "true", "false", "0", "-0", "-1", "1e400", "1.5", "65536", "18446744073709551616",
	"9223372036854775808", "\"\"", "[]", "{}", "[null]", "{\"a\":null}", "\"\\u0000\"", "\"\\ud800\"", "\"\\ud83d\\ude00\"",
	"\"\\u017f\"", " ", "\t", "\n", ",", ":", "[", "]", "{", "}", "\"", "\\", "\xff", "\xe2\x82", "\xed\xa0\x80", "\xc0\xaf",
	"\"id\":\"x\",", "\"transactions\":[null],", "\"inputs\":null,", "\"outputs\":[],", "\"Transaction\":null,", "01", "+1", ".5", "1.", "1e", "tru", "nul", "\x00", "\x1f", "\u2028"}

// structural token boundaries of a JSON text (outside strings): positions of , : [ ] { }
func boundaries(b []byte) []int {
	var res []int
	in := false
	for i := 0; i < len(b); i++ {
		c := b[i]
		if in {
			if c == '\\' {
				i++
			} else if c == '"' {
				in = false
			}
			continue
		}
		switch c {
		case '"':
			in = true
			res = append(res, i)
		case ',', ':', '[', ']', '{', '}':
			res = append(res, i)
		}
	}
	return res
}

// span of the JSON value starting at i (after a ':' or ',' or '['): returns end index
func valueEnd(b []byte, i int) int {
	depth := 0
	in := false
	for j := i; j < len(b); j++ {
		c := b[j]
		if in {
			if c == '\\' {
				j++
			} else if c == '"' {
				in = false
				if depth == 0 {
					return j + 1
				}
			}
			continue
		}
		switch c {
		case '"':
			in = true
		case '[', '{':
			depth++
		case ']', '}':
			if depth == 0 {
				return j
			}
			depth--
			if depth == 0 {
				return j + 1
			}
		case ',':
			if depth == 0 {
				return j
			}
		}
	}
	return len(b)
}

func mutateBytes(rng *rand.Rand, msg []byte) []byte {
	b := append([]byte(nil), msg...)
	n := 1 + rng.Intn(3)
	for k := 0; k < n; k++ {
		bs := boundaries(b)
		pick := func() int {
			if len(bs) == 0 || rng.Intn(4) == 0 {
				if len(b) == 0 {
					return 0
				}
				return rng.Intn(len(b) + 1)
			}
			return bs[rng.Intn(len(bs))]
		}
		switch rng.Intn(9) {
		case 0: // flip a byte
			if len(b) > 0 {
				i := rng.Intn(len(b))
				b[i] ^= byte(1 << uint(rng.Intn(8)))
			}
		case 1: // delete a range
			if len(b) > 0 {
				i := pick()
				if i >= len(b) {
					i = len(b) - 1
				}
				j := i + 1 + rng.Intn(8)
				if j > len(b) {
					j = len(b)
				}
				b = append(b[:i:i], b[j:]...)
			}
		case 2: // insert a fragment at a boundary
			i := pick()
			f := fragments[rng.Intn(len(fragments))]
			b = append(b[:i:i], append([]byte(f), b[i:]...)...)
		case 3: // replace a value by a fragment
			if len(bs) > 0 {
				i := bs[rng.Intn(len(bs))]
				if b[i] == ':' || b[i] == ',' || b[i] == '[' {
					e := valueEnd(b, i+1)
					f := fragments[rng.Intn(16)]
					b = append(b[:i+1:i+1], append([]byte(f), b[e:]...)...)
				}
			}
		case 4: // truncate
			if len(b) > 0 {
				b = b[:rng.Intn(len(b))]
			}
		case 5: // duplicate a member / element
			if len(bs) > 0 {
				i := bs[rng.Intn(len(bs))]
				if b[i] == ',' || b[i] == '{' || b[i] == '[' {
					e := valueEnd(b, i+1)
					if b[i] != '[' {
						// key:value
						c := bytes.IndexByte(b[i+1:], ':')
						if c >= 0 {
							e = valueEnd(b, i+1+c+1)
						}
					}
					if e > i+1 && e <= len(b) {
						seg := append([]byte(nil), b[i+1:e]...)
						ins := append(seg, ',')
						b = append(b[:i+1:i+1], append(ins, b[i+1:]...)...)
					}
				}
			}
		case 6: // upper-case a run of letters (keys, hex)
			if len(b) > 0 {
				i := rng.Intn(len(b))
				for j := i; j < len(b) && j < i+12; j++ {
					if b[j] >= 'a' && b[j] <= 'z' {
						b[j] -= 32
					}
				}
			}
		case 7: // white space at boundaries
			for t := 0; t < 3; t++ {
				i := pick()
				b = append(b[:i:i], append([]byte(" \n\t\r"[rng.Intn(4):][:1]), b[i:]...)...)
			}
		case 8: // trailing data
			b = append(b, []byte(fragments[rng.Intn(len(fragments))])...)
		}
	}
	return b
}
