module ruverif

go 1.19

require (
	github.com/leprosus/golang-p2p v1.3.11
	github.com/my-cloud/ruthenium v0.0.0
)

require (
	github.com/btcsuite/btcd v0.24.0 // indirect
	github.com/btcsuite/btcd/btcec/v2 v2.2.0 // indirect
	github.com/btcsuite/btcd/btcutil v1.1.5 // indirect
	github.com/btcsuite/btcd/chaincfg/chainhash v1.1.0 // indirect
	github.com/decred/dcrd/dcrec/secp256k1/v4 v4.0.1 // indirect
	github.com/ethereum/go-ethereum v1.13.15 // indirect
	github.com/holiman/uint256 v1.2.4 // indirect
	github.com/tyler-smith/go-bip39 v1.1.0 // indirect
	golang.org/x/crypto v0.21.0 // indirect
)

replace github.com/my-cloud/ruthenium => /repo
