module ruverif

go 1.19

require github.com/my-cloud/ruthenium v0.0.0

replace github.com/my-cloud/ruthenium => /repo
