module ruverif

go 1.19

require (
	github.com/ethereum/go-ethereum v1.13.15
	github.com/gin-gonic/gin v1.9.1
	github.com/leprosus/golang-p2p v1.3.11
	github.com/my-cloud/ruthenium v0.0.0
)

require (
	github.com/btcsuite/btcd v0.24.0 // indirect
	github.com/btcsuite/btcd/btcec/v2 v2.2.0 // indirect
	github.com/btcsuite/btcd/btcutil v1.1.5 // indirect
	github.com/btcsuite/btcd/chaincfg/chainhash v1.1.0 // indirect
	github.com/decred/dcrd/dcrec/secp256k1/v4 v4.0.1 // indirect
	github.com/gabriel-vasile/mimetype v1.4.2 // indirect
	github.com/gin-contrib/sse v0.1.0 // indirect
	github.com/go-playground/locales v0.14.1 // indirect
	github.com/go-playground/universal-translator v0.18.1 // indirect
	github.com/go-playground/validator/v10 v10.14.0 // indirect
	github.com/holiman/uint256 v1.2.4 // indirect
	github.com/leodido/go-urn v1.2.4 // indirect
	github.com/mattn/go-isatty v0.0.19 // indirect
	github.com/pelletier/go-toml/v2 v2.0.8 // indirect
	github.com/tyler-smith/go-bip39 v1.1.0 // indirect
	github.com/ugorji/go/codec v1.2.11 // indirect
	golang.org/x/crypto v0.21.0 // indirect
	golang.org/x/net v0.23.0 // indirect
	golang.org/x/sys v0.18.0 // indirect
	golang.org/x/text v0.14.0 // indirect
	google.golang.org/protobuf v1.33.0 // indirect
	gopkg.in/yaml.v3 v3.0.1 // indirect
)

replace github.com/my-cloud/ruthenium => /repo
