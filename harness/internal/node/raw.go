package node

import (
	"encoding/hex"
	"encoding/json"
	"errors"
	"fmt"

	"github.com/my-cloud/ruthenium/validatornode/domain/ledger"
)

// RawBlock is a block at JSON level, used to build arbitrary (also rule-breaking) chains whose ids and
// hashes are recomputed by the REAL code so that exactly the intended rule is broken.
type RawBlock struct {
	PreviousHash [32]byte          `json:"previous_hash"`
	Added        []string          `json:"added_registered_addresses"`
	Removed      []string          `json:"removed_registered_addresses"`
	Timestamp    int64             `json:"timestamp"`
	Transactions []json.RawMessage `json:"transactions"`
}

// FromBlock converts a real block to its raw form (through its real JSON rendering).
func FromBlock(b *ledger.Block) (*RawBlock, error) {
	bytes, err := json.Marshal(b)
	if err != nil {
		return nil, err
	}
	var rb RawBlock
	if err := json.Unmarshal(bytes, &rb); err != nil {
		return nil, err
	}
	return &rb, nil
}

// Decode runs the real block decoder.
func (rb *RawBlock) Decode() (*ledger.Block, error) {
	bytes, err := json.Marshal(rb)
	if err != nil {
		return nil, err
	}
	var b *ledger.Block
	if err := json.Unmarshal(bytes, &b); err != nil {
		return nil, err
	}
	if b == nil {
		return nil, errors.New("decoded to nil block")
	}
	return b, nil
}

func (rb *RawBlock) SetTxs(txs ...*RawTx) {
	rb.Transactions = nil
	for _, t := range txs {
		b, _ := json.Marshal(t)
		rb.Transactions = append(rb.Transactions, b)
	}
}

func (rb *RawBlock) AddTx(t *RawTx) {
	b, _ := json.Marshal(t)
	rb.Transactions = append(rb.Transactions, b)
}

func (rb *RawBlock) Txs() []*RawTx {
	var res []*RawTx
	for _, m := range rb.Transactions {
		var t RawTx
		if json.Unmarshal(m, &t) == nil {
			res = append(res, &t)
		}
	}
	return res
}

// RewardRaw builds a reward transaction (no inputs -> "inputs":null like NewRewardTransaction).
func RewardRaw(address string, yielding bool, ts int64, value uint64) *RawTx {
	t := &RawTx{Inputs: nil, Outputs: []RawOutput{{address, yielding, value}}, Timestamp: ts}
	id, err := t.ComputeId()
	if err != nil {
		panic(err)
	}
	t.Id = id
	return t
}

func HashOf(b *ledger.Block) [32]byte {
	h, err := b.Hash()
	if err != nil {
		panic(err)
	}
	return h
}

func HexOf(h [32]byte) string { return hex.EncodeToString(h[:]) }

// Relink decodes the raw blocks in order, setting each previous_hash to the real hash of the
// predecessor (the first keeps its own previous_hash).  Returns the decoded blocks.
func Relink(raws []*RawBlock) ([]*ledger.Block, error) {
	var res []*ledger.Block
	for i, rb := range raws {
		if i > 0 {
			rb.PreviousHash = HashOf(res[i-1])
		}
		b, err := rb.Decode()
		if err != nil {
			return nil, fmt.Errorf("block %d: %w", i, err)
		}
		res = append(res, b)
	}
	return res, nil
}
