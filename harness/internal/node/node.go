// Package node assembles REAL ruthenium validator components in-process, with fakes only at the
// system boundary (proof-of-humanity oracle, neighbour senders, logger, settings provider).
package node

import (
	"context"
	"encoding/json"
	"errors"
	"fmt"
	"sort"
	"strings"
	"sync"
	"sync/atomic"
	"time"

	"github.com/my-cloud/ruthenium/validatornode/application"
	"github.com/my-cloud/ruthenium/validatornode/application/validation"
	"github.com/my-cloud/ruthenium/validatornode/application/verification"
	"github.com/my-cloud/ruthenium/validatornode/domain/encryption"
	"github.com/my-cloud/ruthenium/validatornode/domain/ledger"
	"github.com/my-cloud/ruthenium/validatornode/presentation/api/history"

	gp2p "github.com/leprosus/golang-p2p"
)

// ---------------------------------------------------------------- settings

type Settings struct {
	BlocksLimit   uint64
	Genesis       uint64
	HalfLife      float64 // nanoseconds
	Base          uint64
	Limit         uint64
	MinFee        uint64
	Units         uint64
	Timeout       time.Duration
	Interval      int64 // nanoseconds (ValidationTimestamp)
	Verifications int64
}

func (s *Settings) BlocksCountLimit() uint64          { return s.BlocksLimit }
func (s *Settings) GenesisAmount() uint64             { return s.Genesis }
func (s *Settings) HalfLifeInNanoseconds() float64    { return s.HalfLife }
func (s *Settings) IncomeBase() uint64                { return s.Base }
func (s *Settings) IncomeLimit() uint64               { return s.Limit }
func (s *Settings) MinimalTransactionFee() uint64     { return s.MinFee }
func (s *Settings) SmallestUnitsPerCoin() uint64      { return s.Units }
func (s *Settings) ValidationTimeout() time.Duration  { return s.Timeout }
func (s *Settings) ValidationTimer() time.Duration    { return time.Duration(s.Interval) }
func (s *Settings) ValidationTimestamp() int64        { return s.Interval }
func (s *Settings) VerificationsCountPerValidation() int64 { return s.Verifications }

var _ application.ProtocolSettingsProvider = (*Settings)(nil)

func DefaultSettings() *Settings {
	return &Settings{BlocksLimit: 100, Genesis: 10_000_000, HalfLife: 373.59 * 24 * float64(time.Hour),
		Base: 50_000_000_000, Limit: 1_000_000_000_000, MinFee: 1000, Units: 100_000_000,
		Timeout: 200 * time.Millisecond, Interval: int64(time.Minute), Verifications: 6}
}

// ---------------------------------------------------------------- wallets

type Wallet struct {
	Priv    *encryption.PrivateKey
	Pub     *encryption.PublicKey
	PubHex  string
	Address string
}

// NewWallet derives a deterministic secp256k1 key from a small integer.
func NewWallet(n int) *Wallet {
	hex := fmt.Sprintf("0x%064x", uint64(n)+0x1234567)
	priv, err := encryption.NewPrivateKeyFromHex(hex)
	if err != nil {
		panic(err)
	}
	pub := encryption.NewPublicKey(priv)
	return &Wallet{priv, pub, pub.String(), pub.Address()}
}

// Sign returns the 128-hex-digit signature of the wallet over the marshaled output reference.
func (w *Wallet) Sign(outputIndex uint16, txId string) string {
	info := ledger.NewInputInfo(outputIndex, txId)
	b, err := json.Marshal(info)
	if err != nil {
		panic(err)
	}
	sig, err := encryption.NewSignature(b, w.Priv)
	if err != nil {
		panic(err)
	}
	return sig.String()
}

// ---------------------------------------------------------------- raw (JSON-level) transactions

type RawInput struct {
	OutputIndex   uint16 `json:"output_index"`
	TransactionId string `json:"transaction_id"`
	PublicKey     string `json:"public_key"`
	Signature     string `json:"signature"`
}

type RawOutput struct {
	Address    string `json:"address"`
	IsYielding bool   `json:"is_yielding"`
	Value      uint64 `json:"value"`
}

type RawTx struct {
	Id        string      `json:"id"`
	Inputs    []RawInput  `json:"inputs"`
	Outputs   []RawOutput `json:"outputs"`
	Timestamp int64       `json:"timestamp"`
}

// ComputeId returns the id the real decoder expects for this content: it decodes the inputs/outputs with
// the real types and lets the real code compute the hash (through a decode attempt with a wrong id whose
// error message is not parsed; instead the id pre-image is rendered by the real marshalers).
func (t *RawTx) ComputeId() (string, error) {
	var ins []*ledger.Input
	if t.Inputs != nil {
		b, _ := json.Marshal(t.Inputs)
		if err := json.Unmarshal(b, &ins); err != nil {
			return "", err
		}
	}
	var outs []*ledger.Output
	if t.Outputs != nil {
		b, _ := json.Marshal(t.Outputs)
		if err := json.Unmarshal(b, &outs); err != nil {
			return "", err
		}
	}
	pre, err := json.Marshal(struct {
		Inputs    []*ledger.Input  `json:"inputs"`
		Outputs   []*ledger.Output `json:"outputs"`
		Timestamp int64            `json:"timestamp"`
	}{ins, outs, t.Timestamp})
	if err != nil {
		return "", err
	}
	return Sha256Hex(pre), nil
}

// Decode turns the raw transaction into a real *ledger.Transaction through the real decoder.
func (t *RawTx) Decode() (*ledger.Transaction, error) {
	b, err := json.Marshal(t)
	if err != nil {
		return nil, err
	}
	var tx *ledger.Transaction
	if err := json.Unmarshal(b, &tx); err != nil {
		return nil, err
	}
	if tx == nil {
		return nil, errors.New("decoded to nil")
	}
	return tx, nil
}

// Seal computes the id and decodes.
func (t *RawTx) Seal() (*ledger.Transaction, error) {
	id, err := t.ComputeId()
	if err != nil {
		return nil, err
	}
	t.Id = id
	return t.Decode()
}

type Spend struct {
	TxId  string
	Index uint16
	By    *Wallet
}

// MakeTx builds a correctly signed transaction.
func MakeTx(spends []Spend, outputs []RawOutput, ts int64) (*ledger.Transaction, *RawTx, error) {
	raw := &RawTx{Timestamp: ts, Outputs: outputs}
	for _, s := range spends {
		raw.Inputs = append(raw.Inputs, RawInput{s.Index, s.TxId, s.By.PubHex, s.By.Sign(s.Index, s.TxId)})
	}
	tx, err := raw.Seal()
	return tx, raw, err
}

// ---------------------------------------------------------------- fakes

type Humans struct {
	mu      sync.Mutex
	Invalid map[string]bool
	Failing map[string]bool
}

func (h *Humans) IsRegistered(address string) (bool, error) {
	h.mu.Lock()
	defer h.mu.Unlock()
	if h.Failing[address] {
		return false, errors.New("poh unavailable")
	}
	return !h.Invalid[address], nil
}

func (h *Humans) Set(invalid []string, failing []string) {
	h.mu.Lock()
	defer h.mu.Unlock()
	h.Invalid = map[string]bool{}
	h.Failing = map[string]bool{}
	for _, a := range invalid {
		h.Invalid[a] = true
	}
	for _, a := range failing {
		h.Failing[a] = true
	}
}

type Logger struct {
	mu    sync.Mutex
	Lines []string
}

func (l *Logger) add(level, msg string) {
	l.mu.Lock()
	l.Lines = append(l.Lines, level+": "+msg)
	l.mu.Unlock()
}
func (l *Logger) Debug(msg string) { l.add("D", msg) }
func (l *Logger) Info(msg string)  { l.add("I", msg) }
func (l *Logger) Warn(msg string)  { l.add("W", msg) }
func (l *Logger) Error(msg string) { l.add("E", msg) }
func (l *Logger) Fatal(msg string) { l.add("F", msg) }
func (l *Logger) Snapshot() []string {
	l.mu.Lock()
	defer l.mu.Unlock()
	return append([]string(nil), l.Lines...)
}
func (l *Logger) Drain() []string {
	l.mu.Lock()
	defer l.mu.Unlock()
	r := l.Lines
	l.Lines = nil
	return r
}

// Classify maps a log line to a small stable enum (substring match on the message text of /repo).
func Classify(line string) string {
	for _, kv := range logClasses {
		if strings.Contains(line, kv[0]) {
			return kv[1]
		}
	}
	return "other"
}

var logClasses = [][2]string{
	{"blockchain replaced", "replaced"},
	{"blockchain kept", "kept"},
	{"all neighbor blockchains are forks", "fullsync"},
	{"neighbor's response timeout", "timeout"},
	{"failed to get neighbor's blockchain", "fetch-error"},
	{"blockchain is too short", "too-short"},
	{"blockchain is a fork", "fork"},
	{"previous neighbor block hash is invalid", "bad-prev-hash"},
	{"block timestamp is invalid", "bad-block-ts"},
	{"timestamp is in the future", "future-block"},
	{"multiple rewards attempt for the same neighbor block", "multi-reward"},
	{"transaction timestamp is too far in the future", "tx-future"},
	{"transaction timestamp is too old", "tx-old"},
	{"yielding output address is not registered", "yield-unregistered"},
	{"has not been rewarded", "no-reward"},
	{"reward exceeds", "reward-exceeds"},
	{"failed to find transaction ID", "no-tx-id"},
	{"failed to find output index", "no-output-index"},
	{"failed to verify input recipient address", "wrong-owner"},
	{"fee is negative", "fee-negative"},
	{"fee is too low", "fee-low"},
	{"overflow", "overflow"},
	{"transaction ID already exists", "id-exists"},
	{"income requested for several UTXOs", "multi-income"},
	{"signature is invalid", "bad-signature"},
	{"failed to verify signature", "bad-signature"},
	{"already in the transactions pool", "duplicate"},
	{"the blockchain is empty", "empty-chain"},
	{"same timestamp is already in the blockchain", "tick-repeated"},
	{"a block is missing in the blockchain", "tick-skipped"},
	{"failed to update UTXOs", "update-failed"},
	{"failed to add UTXO", "add-utxo-failed"},
	{"unable to create block", "create-block-failed"},
	{"reward: ", "reward"},
}

// Sender is a scripted neighbour.
type Sender struct {
	TargetValue string
	Blocks      func(h uint64) ([]byte, error) // may block (silence)
	AddTx       func(b []byte) error
	Targets     func(t []string) error
	mu          sync.Mutex
	Calls       []uint64
}

func (s *Sender) Target() string { return s.TargetValue }
func (s *Sender) GetBlocks(h uint64) ([]byte, error) {
	s.mu.Lock()
	s.Calls = append(s.Calls, h)
	s.mu.Unlock()
	if s.Blocks == nil {
		return nil, errors.New("no blocks")
	}
	return s.Blocks(h)
}
func (s *Sender) GetFirstBlockTimestamp() (int64, error) { return 0, errors.New("n/a") }
func (s *Sender) GetSettings() ([]byte, error)            { return nil, errors.New("n/a") }
func (s *Sender) SendTargets(t []string) error {
	if s.Targets != nil {
		return s.Targets(t)
	}
	return nil
}
func (s *Sender) AddTransaction(b []byte) error {
	if s.AddTx != nil {
		return s.AddTx(b)
	}
	return nil
}
func (s *Sender) GetTransactions() ([]byte, error)   { return nil, errors.New("n/a") }
func (s *Sender) GetUtxos(string) ([]byte, error)    { return nil, errors.New("n/a") }

var _ application.Sender = (*Sender)(nil)

type Senders struct {
	mu         sync.Mutex
	List       []application.Sender
	Host       string
	Incentives []string
	Added      [][]string
}

func (s *Senders) AddTargets(t []string) {
	s.mu.Lock()
	s.Added = append(s.Added, t)
	s.mu.Unlock()
}
func (s *Senders) HostTarget() string { return s.Host }
func (s *Senders) Incentive(t string) {
	s.mu.Lock()
	s.Incentives = append(s.Incentives, t)
	s.mu.Unlock()
}
func (s *Senders) Senders() []application.Sender {
	s.mu.Lock()
	defer s.mu.Unlock()
	return s.List
}
func (s *Senders) Set(l []application.Sender) {
	s.mu.Lock()
	s.List = l
	s.mu.Unlock()
}

var _ application.SendersManager = (*Senders)(nil)

// ---------------------------------------------------------------- node

type Node struct {
	Name      string
	Settings  *Settings
	Validator string
	Humans    *Humans
	Log       *Logger
	Senders   *Senders
	Reg       *verification.AddressesRegistry
	Utxos     *verification.UtxosRegistry
	Chain     *verification.Blockchain
	Pool      *validation.TransactionsPool

	blocksCtlOnce sync.Once
	blocksCtl     *history.BlocksController

	// BeforeAddBlock, when set, runs once inside the pool's next call of Blockchain.AddBlock, before the real call
	// (the place where a sync round may commit between block production's reads and its append)
	BeforeAddBlock atomic.Pointer[func()]
}

// hookedBlocks is the BlocksManager the pool is given: the node's blockchain, plus the optional one-shot hook
type hookedBlocks struct {
	n *Node
}

func (h *hookedBlocks) AddBlock(ts int64, txs []*ledger.Transaction, a []string) error {
	if f := h.n.BeforeAddBlock.Swap(nil); f != nil {
		(*f)()
	}
	return h.n.Chain.AddBlock(ts, txs, a)
}
func (h *hookedBlocks) Blocks(x uint64) []*ledger.Block              { return h.n.Chain.Blocks(x) }
func (h *hookedBlocks) FirstBlockTimestamp() int64                   { return h.n.Chain.FirstBlockTimestamp() }
func (h *hookedBlocks) LastBlockTimestamp() int64                    { return h.n.Chain.LastBlockTimestamp() }
func (h *hookedBlocks) LastBlockTransactions() []*ledger.Transaction { return h.n.Chain.LastBlockTransactions() }

// New wires the real components exactly as validatornode/main.go does.
func New(name string, settings *Settings, validatorAddress string) *Node {
	n := &Node{Name: name, Settings: settings, Validator: validatorAddress}
	n.Humans = &Humans{Invalid: map[string]bool{}, Failing: map[string]bool{}}
	n.Log = &Logger{}
	n.Senders = &Senders{Host: name}
	n.Reg = verification.NewAddressesRegistry(n.Humans, n.Log)
	n.Utxos = verification.NewUtxosRegistry(settings)
	n.Chain = verification.NewBlockchain(n.Reg, settings, n.Senders, n.Utxos, n.Log)
	n.Pool = validation.NewTransactionsPool(&hookedBlocks{n}, settings, n.Senders, n.Utxos, validatorAddress, n.Log)
	return n
}

// AllBlocks pages through Blocks(h) like a client would and returns the whole chain.
func (n *Node) AllBlocks() []*ledger.Block {
	var all []*ledger.Block
	for {
		page := n.Chain.Blocks(uint64(len(all)))
		if len(page) == 0 {
			return all
		}
		all = append(all, page...)
		if n.Settings.BlocksLimit == 0 {
			return all
		}
	}
}

// ServeBlocks answers a blocks request THROUGH the real BlocksController of the validator node's API (one controller
// per node, kept for the node's lifetime, as in validatornode/main.go): what a peer receives for GetBlocks(h).
func (n *Node) ServeBlocks(h uint64) ([]byte, error) {
	n.blocksCtlOnce.Do(func() { n.blocksCtl = history.NewBlocksController(n.Chain) })
	reqBytes, err := json.Marshal(h)
	if err != nil {
		return nil, err
	}
	req := gp2p.Data{}
	req.SetBytes(reqBytes)
	res, err := n.blocksCtl.HandleBlocksRequest(context.Background(), req)
	if err != nil {
		return nil, err
	}
	return res.GetBytes(), nil
}

// ---------------------------------------------------------------- observation (canonical)

type ObsUtxo struct {
	TxId     string `json:"t"`
	Index    uint16 `json:"i"`
	Address  string `json:"a"`
	Yielding bool   `json:"y"`
	Value    uint64 `json:"v"`
	Created  int64  `json:"c"`
}

func obsUtxo(u *ledger.Utxo) *ObsUtxo {
	if u == nil {
		return nil
	}
	return &ObsUtxo{u.TransactionId(), u.OutputIndex(), u.Address(), u.IsYielding(), u.InitialValue(), u.VerifTimestamp()}
}

type ObsEntry struct {
	Key   string     `json:"k"`
	Slots []*ObsUtxo `json:"s"`
}

type Obs struct {
	Chain      []string   `json:"chain"`   // block hashes (hex), by height
	Pool       []string   `json:"pool"`    // transaction ids in pool order
	ById       []ObsEntry `json:"byId"`    // sorted by key; nil slots kept
	ByAddr     []ObsEntry `json:"byAddr"`  // sorted by key; order within entry kept
	Registered []string   `json:"reg"`     // sorted
	Pending    []string   `json:"pending"` // in order
	Log        []string   `json:"log"`     // classes of the log lines of this op, in order
}

func sortedEntries(m map[string][]*ledger.Utxo) []ObsEntry {
	keys := make([]string, 0, len(m))
	for k := range m {
		keys = append(keys, k)
	}
	sort.Strings(keys)
	res := make([]ObsEntry, 0, len(keys))
	for _, k := range keys {
		e := ObsEntry{Key: k, Slots: []*ObsUtxo{}}
		for _, u := range m[k] {
			e.Slots = append(e.Slots, obsUtxo(u))
		}
		res = append(res, e)
	}
	return res
}

func HashHex(b *ledger.Block) string {
	h, err := b.Hash()
	if err != nil {
		return "hash-error:" + err.Error()
	}
	return fmt.Sprintf("%x", h)
}

// Observe reads the node's externally visible state. Blocks are returned so the caller can ship the
// definitions of blocks it has not shipped yet.
func (n *Node) Observe() (*Obs, []*ledger.Block, []*ledger.Transaction) {
	o := &Obs{Chain: []string{}, Pool: []string{}, Registered: []string{}, Log: []string{}}
	blocks := n.AllBlocks()
	for _, b := range blocks {
		o.Chain = append(o.Chain, HashHex(b))
	}
	pool := append([]*ledger.Transaction(nil), n.Pool.Transactions()...)
	for _, t := range pool {
		o.Pool = append(o.Pool, t.Id())
	}
	o.ById = sortedEntries(n.Utxos.VerifUtxosById())
	o.ByAddr = sortedEntries(n.Utxos.VerifUtxosByAddress())
	o.Registered = n.Reg.VerifRegistered()
	sort.Strings(o.Registered)
	o.Pending = n.Reg.VerifPendingRemovals() // nil stays null in JSON: the nil/empty distinction reaches block hashes
	for _, l := range n.Log.Drain() {
		o.Log = append(o.Log, Classify(l))
	}
	return o, blocks, pool
}
