package node

import (
	"crypto/sha256"
	"fmt"
)

func Sha256Hex(b []byte) string {
	h := sha256.Sum256(b)
	return fmt.Sprintf("%x", h)
}
