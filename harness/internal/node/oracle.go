package node

import (
	"crypto/ecdsa"
	"crypto/sha256"
	"encoding/hex"
	"encoding/json"
	"math/big"

	"github.com/ethereum/go-ethereum/common/hexutil"
	"github.com/ethereum/go-ethereum/crypto"
)

// IndependentInputFacts answers, WITHOUT calling any code of the repository under test, the two questions property
// C03 asks about an input: which address does the named public key have, and is the signature a valid ECDSA
// (secp256k1, SHA-256) signature by that key over the JSON rendering of the input's output reference
// {"output_index":…,"transaction_id":…}.  Libraries used: go-ethereum's key decoding / address derivation and the
// standard library's ecdsa.Verify — the primitives the property is stated over.
func IndependentInputFacts(pkHex, sigHex, txId string, index uint16) (address string, sigValid bool, decodable bool) {
	raw, err := hexutil.Decode(pkHex)
	if err != nil {
		return "", false, false
	}
	pub, err := crypto.UnmarshalPubkey(raw)
	if err != nil {
		return "", false, false
	}
	address = crypto.PubkeyToAddress(*pub).Hex()
	if len(sigHex) != 128 {
		return address, false, false
	}
	rb, err1 := hex.DecodeString(sigHex[:64])
	sb, err2 := hex.DecodeString(sigHex[64:])
	if err1 != nil || err2 != nil {
		return address, false, false
	}
	msg, err := json.Marshal(struct {
		OutputIndex   uint16 `json:"output_index"`
		TransactionId string `json:"transaction_id"`
	}{index, txId})
	if err != nil {
		return address, false, false
	}
	h := sha256.Sum256(msg)
	r, s := new(big.Int).SetBytes(rb), new(big.Int).SetBytes(sb)
	return address, ecdsa.Verify((*ecdsa.PublicKey)(pub), h[:], r, s), true
}

// SigHexOf returns the 128-hex-digit signature string of an input as it is rendered on the wire.
func SigHexOf(i interface{ MarshalJSON() ([]byte, error) }) string {
	raw, err := i.MarshalJSON()
	if err != nil {
		return ""
	}
	var dto struct {
		Signature string `json:"signature"`
	}
	_ = json.Unmarshal(raw, &dto)
	return dto.Signature
}
