// Package trace executes operations on REAL nodes and writes, per operation, one JSON line for the Lean
// driver (`rudriver`): the operation, definitions of every transaction/block not shipped before, the
// valuation table entries the model can need (computed with the real ledger.Utxo.Value), and the node's
// observed state.  The driver's answer (diffs / props / miss) is read back per line.
package trace

import (
	"bytes"
	"bufio"
	"encoding/json"
	"fmt"
	"io"
	"math/rand"
	"os"
	"os/exec"
	"runtime"
	"sort"
	"strings"
	"sync"
	"sync/atomic"
	"time"

	"github.com/my-cloud/ruthenium/validatornode/application"
	"github.com/my-cloud/ruthenium/validatornode/domain/ledger"

	"ruverif/internal/node"
)

type Verdict struct {
	N     int               `json:"n"`
	Diffs []string          `json:"diffs"`
	Props []string          `json:"props"`
	Miss  bool              `json:"miss"`
	Info  map[string]string `json:"info"`
	Error string            `json:"error"`
}

type Driver struct {
	cmd *exec.Cmd
	in  io.WriteCloser
	out *bufio.Reader
}

func StartDriver(path string) (*Driver, error) {
	cmd := exec.Command(path)
	in, err := cmd.StdinPipe()
	if err != nil {
		return nil, err
	}
	out, err := cmd.StdoutPipe()
	if err != nil {
		return nil, err
	}
	cmd.Stderr = os.Stderr
	if err := cmd.Start(); err != nil {
		return nil, err
	}
	return &Driver{cmd, in, bufio.NewReaderSize(out, 1<<20)}, nil
}

func (d *Driver) Send(line []byte) (*Verdict, error) {
	if _, err := d.in.Write(append(line, '\n')); err != nil {
		return nil, err
	}
	resp, err := d.out.ReadBytes('\n')
	if err != nil {
		return nil, fmt.Errorf("driver closed: %w", err)
	}
	var v Verdict
	if err := json.Unmarshal(resp, &v); err != nil {
		return nil, fmt.Errorf("bad driver answer %q: %w", string(resp), err)
	}
	return &v, nil
}

func (d *Driver) Close() {
	_ = d.in.Close()
	_ = d.cmd.Wait()
}

// ---------------------------------------------------------------- world

type valKey struct {
	v uint64
	y bool
	e int64
}

type World struct {
	S       *node.Settings
	Wallets []*node.Wallet
	Nodes   []*node.Node
	Rng     *rand.Rand

	drv      *Driver
	Lines    [][]byte   // the trace so far (for replay files)
	Verdicts []*Verdict // one per line

	txs       map[string]*ledger.Transaction // every transaction ever seen, by id
	shippedTx map[string]bool
	sigChecks map[string]int
	shippedBk map[string]bool
	created   map[string]map[int64]bool // id -> candidate creation timestamps
	emitted   map[valKey]bool
	allTs     map[int64]bool

	Hist     map[string]int
	Failures []Failure
	Ops      int
	firstDiffLine int // line of the first correspondence DIFF (-1: none)

	// Foreign: the neighbours of this world encode their answers like a non-Go peer would — the same JSON values,
	// members sorted by name, indented (legal, and decoded to the same blocks; what a node then holds and serves
	// must not depend on it)
	Foreign bool
}

// Reencode renders the same JSON value with another encoder's habits: object members sorted by name, whitespace
// after separators, numbers kept digit for digit.  Anything that is not a JSON value is returned unchanged.
func Reencode(b []byte) []byte {
	dec := json.NewDecoder(bytes.NewReader(b))
	dec.UseNumber()
	var v interface{}
	if err := dec.Decode(&v); err != nil {
		return b
	}
	if dec.More() {
		return b
	}
	out, err := json.MarshalIndent(v, "", " ")
	if err != nil {
		return b
	}
	return out
}

type Failure struct {
	Kind   string `json:"kind"` // diff | prop | miss | harness
	Text   string `json:"text"`
	Line   int    `json:"line"`
	OpKind string `json:"op"`
}

func NewWorld(s *node.Settings, nWallets int, validators []int, rng *rand.Rand, driverPath string, monitors bool) (*World, error) {
	w := &World{S: s, Rng: rng, txs: map[string]*ledger.Transaction{}, shippedTx: map[string]bool{}, sigChecks: map[string]int{}, firstDiffLine: -1, shippedBk: map[string]bool{},
		created: map[string]map[int64]bool{}, emitted: map[valKey]bool{}, allTs: map[int64]bool{}, Hist: map[string]int{}}
	for i := 0; i < nWallets; i++ {
		w.Wallets = append(w.Wallets, node.NewWallet(i))
	}
	nodes := map[string]string{}
	for i, v := range validators {
		n := node.New(fmt.Sprintf("n%d", i), s, w.Wallets[v].Address)
		w.Nodes = append(w.Nodes, n)
		nodes[n.Name] = n.Validator
	}
	if driverPath != "" {
		d, err := StartDriver(driverPath)
		if err != nil {
			return nil, err
		}
		w.drv = d
	}
	init := map[string]interface{}{"op": "init", "nodes": nodes, "monitors": monitors,
		"cfg": map[string]interface{}{"page": s.BlocksLimit, "genesis": s.Genesis, "minFee": s.MinFee, "interval": s.Interval}}
	w.send(init, "init")
	return w, nil
}

func (w *World) Close() {
	if w.drv != nil {
		w.drv.Close()
	}
}

func (w *World) send(line map[string]interface{}, kind string) *Verdict {
	b, err := json.Marshal(line)
	if err != nil {
		panic(err)
	}
	w.Lines = append(w.Lines, b)
	if w.drv == nil {
		w.Verdicts = append(w.Verdicts, &Verdict{})
		return &Verdict{}
	}
	v, err := w.drv.Send(b)
	if err != nil {
		w.Failures = append(w.Failures, Failure{"harness", "driver: " + err.Error(), len(w.Lines) - 1, kind})
		w.Verdicts = append(w.Verdicts, &Verdict{Error: err.Error()})
		return &Verdict{Error: err.Error()}
	}
	w.Verdicts = append(w.Verdicts, v)
	ln := len(w.Lines) - 1
	if v.Error != "" {
		w.Failures = append(w.Failures, Failure{"harness", "driver error: " + v.Error, ln, kind})
	}
	for _, d := range v.Diffs {
		if w.firstDiffLine < 0 {
			w.firstDiffLine = ln
		}
		w.Failures = append(w.Failures, Failure{"diff", d, ln, kind})
	}
	for _, p := range v.Props {
		w.Failures = append(w.Failures, Failure{"prop", p, ln, kind})
	}
	if v.Miss {
		w.Failures = append(w.Failures, Failure{"miss", "valuation table did not cover the model's requests", ln, kind})
	}
	for k, val := range v.Info {
		if k == "rewarddiff" || k == "included" || k == "pooled" || k == "cands" || k == "mustkeep" || k == "fork" || k == "survivors" || k == "outcomes" {
			continue
		}
		w.Hist[k+":"+val]++
	}
	return v
}

// ---------------------------------------------------------------- definitions shipped to the driver

// Continue says whether a scenario should go on: always while nothing failed; after a correspondence DIFF (the
// driver then re-synchronises the model with the observed state) for up to 30 more trace lines, looking for a PROP
// failure — a concrete input on which the PROPERTY, not only the correspondence, fails; never after a PROP, panic or
// harness failure.
func (w *World) Continue() bool {
	if len(w.Failures) == 0 {
		return true
	}
	for _, f := range w.Failures {
		if f.Kind != "diff" {
			return false
		}
	}
	return w.firstDiffLine >= 0 && len(w.Lines)-w.firstDiffLine < 30
}

func short(s string) string {
	if len(s) > 10 {
		return s[:10]
	}
	return s
}

func txDef(t *ledger.Transaction) map[string]interface{} {
	ins := []map[string]interface{}{}
	for _, i := range t.Inputs() {
		raw, _ := json.Marshal(i)
		var dto struct {
			PublicKey string `json:"public_key"`
			Signature string `json:"signature"`
		}
		_ = json.Unmarshal(raw, &dto)
		// address and signature validity come from the primitives directly (node.IndependentInputFacts), never from
		// the code under test: the model is then judged against what C03 is stated over
		addr, ok, _ := node.IndependentInputFacts(dto.PublicKey, dto.Signature, i.TransactionId(), i.OutputIndex())
		ins = append(ins, map[string]interface{}{"t": i.TransactionId(), "i": i.OutputIndex(), "pk": dto.PublicKey, "sg": dto.Signature,
			"a": addr, "ok": ok})
	}
	outs := []map[string]interface{}{}
	for _, o := range t.Outputs() {
		outs = append(outs, map[string]interface{}{"a": o.Address(), "y": o.IsYielding(), "v": o.InitialValue()})
	}
	return map[string]interface{}{"id": t.Id(), "ts": t.Timestamp(), "in": ins, "out": outs}
}

func blockDef(b *ledger.Block) map[string]interface{} {
	ids := []string{}
	for _, t := range b.Transactions() {
		ids = append(ids, t.Id())
	}
	return map[string]interface{}{"h": node.HashHex(b), "p": node.HexOf(b.PreviousHash()), "ad": b.AddedRegisteredAddresses(),
		"rm": b.RemovedRegisteredAddresses(), "ts": b.Timestamp(), "tx": ids}
}

type defs struct {
	txs    []map[string]interface{}
	blocks []map[string]interface{}
}

func (w *World) noteTx(d *defs, t *ledger.Transaction, createdAt ...int64) {
	if t == nil {
		return
	}
	if !w.shippedTx[t.Id()] {
		w.shippedTx[t.Id()] = true
		w.txs[t.Id()] = t
		d.txs = append(d.txs, txDef(t))
	}
	// C03 tie: the repository's own answers (Input.Address, Input.VerifySignature) must be the primitives' answers —
	// checked at the first sightings of a transaction (an answer that depends on history — a cache — is the hazard)
	w.sigChecks[t.Id()]++
	for k, i := range t.Inputs() {
		if w.sigChecks[t.Id()] > 2 {
			break
		}
		raw, _ := json.Marshal(i)
		var dto struct {
			PublicKey string `json:"public_key"`
			Signature string `json:"signature"`
		}
		_ = json.Unmarshal(raw, &dto)
		addr, ok, dec := node.IndependentInputFacts(dto.PublicKey, dto.Signature, i.TransactionId(), i.OutputIndex())
		if !dec {
			continue
		}
		if got := i.VerifySignature() == nil; got != ok {
			w.Failures = append(w.Failures, Failure{"prop", fmt.Sprintf("C03 signature-check-disagrees-with-primitives tx=%s input=%d ref=%s:%d: Input.VerifySignature says valid=%v, ECDSA verification of the signature over the output reference by the named key says %v",
				short(t.Id()), k, short(i.TransactionId()), i.OutputIndex(), got, ok), len(w.Lines), "tx-seen"})
		}
		if got := i.Address(); got != addr {
			w.Failures = append(w.Failures, Failure{"prop", fmt.Sprintf("C03 address-disagrees-with-primitives tx=%s input=%d: Input.Address()=%s, address of the named key=%s",
				short(t.Id()), k, got, addr), len(w.Lines), "tx-seen"})
		}
	}
	if w.created[t.Id()] == nil {
		w.created[t.Id()] = map[int64]bool{}
	}
	for _, c := range createdAt {
		w.created[t.Id()][c] = true
	}
}

func (w *World) noteBlock(d *defs, b *ledger.Block) {
	if b == nil {
		return
	}
	for _, t := range b.Transactions() {
		w.noteTx(d, t, b.Timestamp(), b.Timestamp()+w.S.Interval) // created when replayed at its own ts, or as "last block" at next ts
	}
	h := node.HashHex(b)
	if !w.shippedBk[h] {
		w.shippedBk[h] = true
		d.blocks = append(d.blocks, blockDef(b))
	}
}

// vals computes the valuation entries the model may request for transaction t valued at timestamps ts.
func (w *World) valsFor(out *[][4]interface{}, t *ledger.Transaction, ts ...int64) {
	for _, in := range t.Inputs() {
		src := w.txs[in.TransactionId()]
		if src == nil || int(in.OutputIndex()) >= len(src.Outputs()) {
			continue
		}
		o := src.Outputs()[in.OutputIndex()]
		for c := range w.created[in.TransactionId()] {
			for _, at := range ts {
				k := valKey{o.InitialValue(), o.IsYielding(), at - c}
				if w.emitted[k] || at == c {
					continue
				}
				w.emitted[k] = true
				u := ledger.NewUtxo(ledger.NewInputInfo(in.OutputIndex(), in.TransactionId()), o, c)
				v := u.Value(at, w.S.HalfLife, w.S.Base, w.S.Limit)
				y := 0
				if o.IsYielding() {
					y = 1
				}
				*out = append(*out, [4]interface{}{o.InitialValue(), y, at - c, v})
			}
		}
	}
}

// ---------------------------------------------------------------- operations

// Perm reproduces the production shuffle of Validate(ts) for a pool of n transactions.
func Perm(ts int64, n int) []int {
	idx := make([]int, n)
	for i := range idx {
		idx[i] = i
	}
	rand.Seed(ts)
	rand.Shuffle(n, func(i, j int) { idx[i], idx[j] = idx[j], idx[i] })
	return idx
}

func (w *World) Tick(n *node.Node, ts int64) *Verdict {
	d := &defs{}
	pool := append([]*ledger.Transaction(nil), n.Pool.Transactions()...)
	perm := Perm(ts, len(pool))
	ids := []string{}
	for _, i := range perm {
		ids = append(ids, pool[i].Id())
	}
	// valuations at the tick timestamp for pooled transactions must be shipped with this line
	last := n.Chain.LastBlockTimestamp()
	for _, t := range pool {
		w.noteTx(d, t, last+w.S.Interval)
	}
	var pre [][4]interface{}
	for _, t := range pool {
		w.valsFor(&pre, t, ts, last+w.S.Interval)
	}
	func() {
		defer w.guard("tick")
		n.Pool.Validate(ts)
	}()
	line := map[string]interface{}{"op": "tick", "node": n.Name, "ts": ts, "perm": ids}
	v := w.finishWith(line, n, d, nil, "tick", pre)
	return v
}

func (w *World) finishWith(line map[string]interface{}, n *node.Node, d *defs, extra []*ledger.Block, kind string, pre [][4]interface{}) *Verdict {
	// merge pre-computed valuation entries by stashing them into defs through a wrapper line
	if len(pre) > 0 {
		line["_pre"] = pre
	}
	v := w.finishMerged(line, n, d, extra, kind)
	return v
}

func (w *World) finishMerged(line map[string]interface{}, n *node.Node, d *defs, extra []*ledger.Block, kind string) *Verdict {
	pre, _ := line["_pre"].([][4]interface{})
	delete(line, "_pre")
	obs, blocks, pool := n.Observe()
	for _, b := range blocks {
		w.noteBlock(d, b)
	}
	for _, b := range extra {
		w.noteBlock(d, b)
	}
	var lastTs int64
	if len(blocks) > 0 {
		lastTs = blocks[len(blocks)-1].Timestamp()
	}
	next := lastTs + w.S.Interval
	for _, t := range pool {
		w.noteTx(d, t, next)
	}
	vals := pre
	for _, b := range append(append([]*ledger.Block{}, blocks...), extra...) {
		for _, t := range b.Transactions() {
			w.valsFor(&vals, t, b.Timestamp())
		}
	}
	for _, t := range pool {
		w.valsFor(&vals, t, next)
	}
	df := map[string]interface{}{}
	if len(d.txs) > 0 {
		df["txs"] = d.txs
	}
	if len(d.blocks) > 0 {
		df["blocks"] = d.blocks
	}
	if len(vals) > 0 {
		df["vals"] = vals
	}
	if len(df) > 0 {
		line["defs"] = df
	}
	line["obs"] = obs
	w.Ops++
	w.Hist["op:"+kind]++
	for _, c := range obs.Log {
		w.Hist["log:"+c]++
	}
	return w.send(line, kind)
}

func (w *World) guard(kind string) {
	if r := recover(); r != nil {
		buf := make([]byte, 2048)
		k := runtime.Stack(buf, false)
		w.Failures = append(w.Failures, Failure{"harness", fmt.Sprintf("PANIC in %s: %v\n%s", kind, r, buf[:k]), len(w.Lines), kind})
	}
}

func (w *World) Submit(n *node.Node, tx *ledger.Transaction) *Verdict {
	d := &defs{}
	last := n.Chain.LastBlockTimestamp()
	next := last + w.S.Interval
	w.noteTx(d, tx, next)
	var pre [][4]interface{}
	w.valsFor(&pre, tx, next)
	func() {
		defer w.guard("submit")
		n.Pool.AddTransaction(tx, "", n.Name)
	}()
	line := map[string]interface{}{"op": "submit", "node": n.Name, "tx": tx.Id()}
	return w.finishWith(line, n, d, nil, "submit", pre)
}

func (w *World) RegSync(n *node.Node, invalid, failing []string) *Verdict {
	n.Humans.Set(invalid, failing)
	func() {
		defer w.guard("regsync")
		n.Reg.Synchronize(0)
	}()
	if invalid == nil {
		invalid = []string{}
	}
	if failing == nil {
		failing = []string{}
	}
	line := map[string]interface{}{"op": "regsync", "node": n.Name, "invalid": invalid, "failing": failing}
	return w.finishWith(line, n, &defs{}, nil, "regsync", nil)
}

func (w *World) Read(n *node.Node, h uint64) *Verdict {
	var page []*ledger.Block
	func() {
		defer w.guard("read")
		page = n.Chain.Blocks(h)
	}()
	hs := []string{}
	for _, b := range page {
		hs = append(hs, node.HashHex(b))
	}
	line := map[string]interface{}{"op": "read", "node": n.Name, "h": h, "page": hs}
	// … and what a peer receives for the same request through the node's blocks controller, decoded by the receiver's
	// decoder: it must be the blocks the node holds (C15), whatever was requested and whatever the chain did before
	d := &defs{}
	var extra []*ledger.Block
	func() {
		defer w.guard("read")
		if b, err := n.ServeBlocks(h); err == nil {
			served := []string{}
			for _, x := range decodeBlocks(b) {
				served = append(served, node.HashHex(x))
				extra = append(extra, x)
			}
			line["served"] = served
		} else {
			line["served_error"] = err.Error()
		}
	}()
	return w.finishWith(line, n, d, extra, "read", nil)
}

// Neighbour describes what one neighbour answers in a sync round.
type Neighbour struct {
	Target string
	// Answer returns the bytes (or error) for GetBlocks(h); call = 0 for the first request of the round to
	// this neighbour, 1 for the second.  Silent = never answers within the round.
	Answer func(h uint64, call int) ([]byte, error)
	Silent bool
	Kind   string
}

type SyncStats struct {
	Millis     int64
	Goroutines int
}

func decodeBlocks(b []byte) []*ledger.Block {
	var bs []*ledger.Block
	if err := json.Unmarshal(b, &bs); err != nil {
		return nil
	}
	for _, x := range bs {
		if x == nil {
			return nil // a null block makes verify fail: same as no answer
		}
	}
	if bs == nil {
		bs = []*ledger.Block{}
	}
	return bs
}

func (w *World) Sync(n *node.Node, now int64, neigh []Neighbour) (*Verdict, SyncStats) {
	return w.syncWith(n, now, neigh, nil, "sync", nil, nil)
}

// SyncTick runs a sync round during which — while the round waits for the first neighbour's answer — the node's own
// validation tick (block production at ts) runs to completion.
func (w *World) SyncTick(n *node.Node, now int64, neigh []Neighbour, ts int64) (*Verdict, SyncStats) {
	d := &defs{}
	pool := append([]*ledger.Transaction(nil), n.Pool.Transactions()...)
	perm := Perm(ts, len(pool))
	ids := []string{}
	for _, i := range perm {
		ids = append(ids, pool[i].Id())
	}
	last := n.Chain.LastBlockTimestamp()
	for _, t := range pool {
		w.noteTx(d, t, last+w.S.Interval)
	}
	var pre [][4]interface{}
	for _, t := range pool {
		w.valsFor(&pre, t, ts, last+w.S.Interval)
	}
	inside := func() {
		defer w.guard("tick")
		n.Pool.Validate(ts)
	}
	return w.syncWith(n, now, neigh, inside, "synctick", map[string]interface{}{"ts": ts, "perm": ids, "_pre": pre}, d)
}

// TickSync runs the node's validation tick (block production at ts) inside which — between the tick's reads and its
// AddBlock — a whole sync round (Blockchain.Update(now) against neigh) runs to completion.
func (w *World) TickSync(n *node.Node, ts int64, now int64, neigh []Neighbour) *Verdict {
	d := &defs{}
	pool := append([]*ledger.Transaction(nil), n.Pool.Transactions()...)
	perm := Perm(ts, len(pool))
	ids := []string{}
	for _, i := range perm {
		ids = append(ids, pool[i].Id())
	}
	last := n.Chain.LastBlockTimestamp()
	for _, t := range pool {
		w.noteTx(d, t, last+w.S.Interval)
	}
	var pre [][4]interface{}
	for _, t := range pool {
		w.valsFor(&pre, t, ts, last+w.S.Interval)
	}
	var resps []map[string]interface{}
	var extra []*ledger.Block
	fired := false
	hook := func() {
		fired = true
		resps, extra = w.roundInside(n, now, neigh)
	}
	n.BeforeAddBlock.Store(&hook)
	func() {
		defer w.guard("tick")
		n.Pool.Validate(ts)
	}()
	n.BeforeAddBlock.Store(nil)
	if !fired {
		// the tick was refused before it reached AddBlock: a plain (refused) tick
		line := map[string]interface{}{"op": "tick", "node": n.Name, "ts": ts, "perm": ids}
		return w.finishWith(line, n, d, nil, "tick", pre)
	}
	line := map[string]interface{}{"op": "ticksync", "node": n.Name, "ts": ts, "perm": ids, "now": now, "resps": resps, "_pre": pre}
	return w.finishMerged(line, n, d, extra, "ticksync")
}

// roundInside runs one sync round and returns what the neighbours answered, in the driver's format (no late answers:
// the neighbours answer at once)
func (w *World) roundInside(n *node.Node, now int64, neigh []Neighbour) ([]map[string]interface{}, []*ledger.Block) {
	type served struct {
		h     uint64
		bytes []byte
		ok    bool
	}
	rec := make([][]served, len(neigh))
	var senders []application.Sender
	for i := range neigh {
		i := i
		nb := neigh[i]
		calls := 0
		senders = append(senders, &node.Sender{TargetValue: nb.Target, Blocks: func(h uint64) ([]byte, error) {
			c := calls
			calls++
			b, err := nb.Answer(h, c)
			if w.Foreign && err == nil {
				b = Reencode(b)
			}
			rec[i] = append(rec[i], served{h, b, err == nil})
			return b, err
		}})
	}
	n.Senders.Set(senders)
	hostLen := len(n.AllBlocks())
	n.Chain.Update(now)
	n.Senders.Set(nil)
	var extra []*ledger.Block
	resps := []map[string]interface{}{}
	for i, nb := range neigh {
		r := map[string]interface{}{"t": nb.Target, "a": nil, "b": nil}
		for _, s := range rec[i] {
			var hs interface{}
			if s.ok {
				if bs := decodeBlocks(s.bytes); bs != nil {
					l := []string{}
					for _, b := range bs {
						l = append(l, node.HashHex(b))
						extra = append(extra, b)
					}
					hs = l
				}
			}
			if hostLen > 2 && s.h == uint64(hostLen-1) && s.h != 0 {
				r["a"] = hs
			} else if s.h == 0 {
				r["b"] = hs
			}
		}
		resps = append(resps, r)
	}
	return resps, extra
}

// SyncSubmit runs a sync round during which — while the round waits for the first neighbour's answer — a transaction
// is submitted to the node's pool.
func (w *World) SyncSubmit(n *node.Node, now int64, neigh []Neighbour, tx *ledger.Transaction) (*Verdict, SyncStats) {
	d := &defs{}
	next := n.Chain.LastBlockTimestamp() + w.S.Interval
	w.noteTx(d, tx, next)
	var pre [][4]interface{}
	w.valsFor(&pre, tx, next)
	inside := func() {
		defer w.guard("submit")
		n.Pool.AddTransaction(tx, "", n.Name)
	}
	return w.syncWith(n, now, neigh, inside, "syncsubmit", map[string]interface{}{"tx": tx.Id(), "_pre": pre}, d)
}

func (w *World) syncWith(n *node.Node, now int64, neigh []Neighbour, inside func(), opName string, more map[string]interface{}, d0 *defs) (*Verdict, SyncStats) {
	var once sync.Once
	var fired atomic.Bool
	if inside != nil {
		f := inside
		inside = func() { fired.Store(true); f() }
	}
	type served struct {
		h     uint64
		bytes []byte
		ok    bool
		dur   time.Duration
	}
	rec := make([][]served, len(neigh))
	release := make(chan struct{})
	var senders []application.Sender
	for i := range neigh {
		i := i
		nb := neigh[i]
		calls := 0
		senders = append(senders, &node.Sender{TargetValue: nb.Target, Blocks: func(h uint64) ([]byte, error) {
			c := calls
			calls++
			if inside != nil {
				once.Do(inside)
			}
			if nb.Silent {
				rec[i] = append(rec[i], served{h, nil, false, 0})
				<-release
				return nil, fmt.Errorf("late")
			}
			t := time.Now()
			b, err := nb.Answer(h, c)
			if w.Foreign && err == nil {
				b = Reencode(b)
			}
			rec[i] = append(rec[i], served{h, b, err == nil, time.Since(t)})
			return b, err
		}})
	}
	n.Senders.Set(senders)
	hostLen := len(n.AllBlocks())
	_ = n.Log.Drain()
	time.Sleep(time.Millisecond)
	g0 := runtime.NumGoroutine()
	t0 := time.Now()
	func() {
		defer w.guard("sync")
		n.Chain.Update(now)
	}()
	el := time.Since(t0)
	close(release)
	n.Senders.Set(nil)
	g1 := runtime.NumGoroutine()
	for k := 0; k < 50 && g1 > g0; k++ {
		time.Sleep(2 * time.Millisecond)
		g1 = runtime.NumGoroutine()
	}
	d := d0
	if d == nil {
		d = &defs{}
	}
	var extra []*ledger.Block
	resps := []map[string]interface{}{}
	// an answer that arrived after the node's real-time timeout is, for the node, no answer.  The node logs one
	// line per timed-out fetch naming the target and the phase; several senders may share a target, so the k
	// timed-out fetches of a (target, phase) are attributed to the k slowest answers recorded for it.
	lateCount := map[string]int{}
	for _, l := range n.Log.Snapshot() {
		if strings.Contains(l, "neighbor's response timeout") {
			seen := map[string]bool{}
			for _, nb := range neigh {
				if seen[nb.Target] || !strings.Contains(l, "for target "+nb.Target+":") {
					continue
				}
				seen[nb.Target] = true
				if strings.Contains(l, "last neighbor blocks") {
					lateCount[nb.Target+"/a"]++
				} else {
					lateCount[nb.Target+"/b"]++
				}
			}
		}
	}
	phaseOf := func(h uint64) string {
		if hostLen > 2 && h == uint64(hostLen-1) && h != 0 {
			return "/a"
		} else if h == 0 {
			return "/b"
		}
		return ""
	}
	lateRec := map[[2]int]bool{} // (sender index, record index)
	for key, k := range lateCount {
		type cand struct {
			i, j int
			dur  time.Duration
		}
		var cs []cand
		for i, nb := range neigh {
			for j, sv := range rec[i] {
				if ph := phaseOf(sv.h); ph != "" && nb.Target+ph == key {
					cs = append(cs, cand{i, j, sv.dur})
				}
			}
		}
		sort.SliceStable(cs, func(x, y int) bool { return cs[x].dur > cs[y].dur })
		for x := 0; x < k && x < len(cs); x++ {
			lateRec[[2]int{cs[x].i, cs[x].j}] = true
		}
	}
	for i, nb := range neigh {
		r := map[string]interface{}{"t": nb.Target, "a": nil, "b": nil}
		for j, s := range rec[i] {
			var hs interface{}
			if s.ok {
				if bs := decodeBlocks(s.bytes); bs != nil {
					l := []string{}
					for _, b := range bs {
						l = append(l, node.HashHex(b))
						extra = append(extra, b)
					}
					hs = l
				}
			}
			if lateRec[[2]int{i, j}] {
				continue
			}
			switch phaseOf(s.h) {
			case "/a":
				r["a"] = hs
			case "/b":
				r["b"] = hs
			}
		}
		resps = append(resps, r)
		w.Hist["neigh:"+nb.Kind]++
	}
	if inside != nil && !fired.Load() {
		// no neighbour was asked (no neighbour, or an empty chain): the tick did not run — a plain round
		// (the valuation entries computed for the tick are still shipped: they are marked as emitted)
		opName, more = "sync", map[string]interface{}{"_pre": more["_pre"]}
	}
	line := map[string]interface{}{"op": opName, "node": n.Name, "now": now, "resps": resps}
	for k, x := range more {
		line[k] = x
	}
	v := w.finishMerged(line, n, d, extra, opName)
	st := SyncStats{el.Milliseconds(), g1 - g0}
	if g1 > g0 {
		w.Failures = append(w.Failures, Failure{"harness", fmt.Sprintf("C13 goroutines %d -> %d after the sync round", g0, g1), len(w.Lines) - 1, "sync"})
	}
	budget := time.Duration(2*len(neigh)+1)*w.S.Timeout + 2*time.Second
	if el > budget {
		w.Failures = append(w.Failures, Failure{"harness", fmt.Sprintf("C13 sync round took %v, budget %v", el, budget), len(w.Lines) - 1, "sync"})
	}
	return v, st
}

// Honest makes a neighbour that serves node p's real chain like the real blocks controller.
func Honest(p *node.Node) Neighbour {
	return Neighbour{Target: p.Name, Kind: "honest", Answer: func(h uint64, _ int) ([]byte, error) { return p.ServeBlocks(h) }}
}

// Serving makes a neighbour that serves a fixed chain (paged like the real controller).
func Serving(target, kind string, chain []*ledger.Block, page uint64) Neighbour {
	return Neighbour{Target: target, Kind: kind, Answer: func(h uint64, _ int) ([]byte, error) {
		return json.Marshal(PageOf(chain, h, page))
	}}
}

func PageOf(chain []*ledger.Block, h uint64, page uint64) []*ledger.Block {
	if uint64(len(chain)) == 0 || h > uint64(len(chain))-1 || page == 0 {
		return []*ledger.Block{}
	}
	end := uint64(len(chain))
	if h+page < end {
		end = h + page
	}
	return chain[h:end]
}

func SortedKeys(m map[string]int) []string {
	ks := make([]string, 0, len(m))
	for k := range m {
		ks = append(ks, k)
	}
	sort.Strings(ks)
	return ks
}
