#!/usr/bin/env python3
"""Regenerates engines/core_skeleton.json: the syntactic skeleton (harness/cmd/ruextract-core) of the functions
the model lean/core mirrors, taken from /repo's CURRENT tree.  Run it after every deliberate change to /repo (fix:
commits) once the model has been brought in line; the core checks compare the current tree with this file."""
import json, subprocess, sys
from pathlib import Path
V = Path(__file__).resolve().parent.parent
sys.path.insert(0, str(V))
import vlib
ok, binary, log = vlib.go_build("ruextract-core")
if not ok:
    sys.exit(log)
rc, out, err = vlib.run([str(binary), "--repo", str(vlib.REPO)])
if rc != 0:
    sys.exit(err)
fns = json.loads(out)
head = subprocess.run("git -C /repo log --format=%h -1", shell=True, capture_output=True, text=True).stdout.strip()
(V / "engines" / "core_skeleton.json").write_text(json.dumps({"repo_head": head, "functions": fns}, indent=1))
print(len(fns), "functions at", head)
