#!/usr/bin/env python3
"""Regenerates engines/skeleton_<set>.json: the syntactic skeleton (harness/cmd/ruextract-core) of the functions the
hand-written Lean models mirror, taken from /repo's CURRENT tree.  Run it after every deliberate change to /repo (fix:
commits) once the models have been brought in line; the checks compare the current tree with these files."""
import json, subprocess, sys
from pathlib import Path
V = Path(__file__).resolve().parent.parent
sys.path.insert(0, str(V))
import vlib
ok, binary, log = vlib.go_build("ruextract-core")
if not ok:
    sys.exit(log)
head = subprocess.run("git -C /repo log --format=%h -1", shell=True, capture_output=True, text=True).stdout.strip()
for s in ("core", "neigh", "wallet", "clock", "codec"):
    rc, out, err = vlib.run([str(binary), "--repo", str(vlib.REPO), "--set", s])
    if rc != 0:
        sys.exit(err)
    fns = json.loads(out)
    (V / "engines" / f"skeleton_{s}.json").write_text(json.dumps({"repo_head": head, "functions": fns}, indent=1))
    print(s, len(fns), "functions at", head)
