#!/usr/bin/env python3
"""Re-run the registered checks against stored seeded changes (seeded/<id>/patch.diff).

  tools/seed_rerun.py [--tier quick] [--props C06,C12 (default: meta.checked_properties)] <id> [<id> ...] | all

For each id: fresh scratch worktree of /repo HEAD under /tmp, apply the patch (3-way if needed), run ./check with
VERIF_REPO pointing there, record the outcome under meta["reruns"] and refresh meta["caught_by"], remove the worktree.
"""
import argparse, json, os, subprocess, sys, time
from pathlib import Path
V = Path(__file__).resolve().parent.parent
ENV = dict(os.environ, GOFLAGS="-mod=mod", GOPROXY="off", GOSUMDB="off", GOTOOLCHAIN="local")

def _cleanup_alt(scratch):
    """remove the harness binaries and generated go.mod built for a scratch tree (vlib names them by a tag of its path)"""
    import hashlib, glob, shutil
    tag = hashlib.sha1(str(Path(scratch).resolve()).encode()).hexdigest()[:8]
    for f in glob.glob(str(V / ".work" / "bin" / f"*-{tag}")):
        try:
            os.remove(f)
        except OSError:
            pass
    shutil.rmtree(V / ".work" / f"alt-{tag}", ignore_errors=True)


def sh(cmd, cwd=None, env=None, timeout=7200):
    p = subprocess.run(cmd, shell=True, cwd=cwd, env=env or ENV, capture_output=True, text=True, timeout=timeout)
    return p.returncode, p.stdout + p.stderr

def main():
    ap = argparse.ArgumentParser()
    ap.add_argument("ids", nargs="+")
    ap.add_argument("--tier", default="quick")
    ap.add_argument("--props", default="")
    a = ap.parse_args()
    ids = a.ids
    if ids == ["all"]:
        ids = sorted(p.name for p in (V / "seeded").iterdir() if (p / "patch.diff").exists())
    head = sh("git -C /repo log --format=%h -1")[1].strip()
    for i in ids:
        d = V / "seeded" / i
        meta = json.loads((d / "meta.json").read_text())
        scratch = Path(f"/tmp/rerun-{i}")
        sh(f"git -C /repo worktree remove --force {scratch}")
        sh(f"git -C /repo worktree add --detach {scratch} HEAD")
        try:
            rc, o = sh(f"git apply {d/'patch.diff'}", cwd=scratch)
            how = "git apply"
            if rc != 0:
                rc, o = sh(f"git apply -3 {d/'patch.diff'}", cwd=scratch)
                how = "git apply -3"
            if rc != 0:
                print(i, "patch no longer applies to", head, ":", o[-300:])
                meta.setdefault("reruns", []).append({"repo_head": head, "applies": False})
                (d / "meta.json").write_text(json.dumps(meta, indent=1))
                continue
            rcb, ob = sh("go build ./...", cwd=scratch)
            props = a.props.split(",") if a.props else meta.get("checked_properties", [meta["breaks_property"]])
            res = {}
            for p in props:
                t0 = time.time()
                rc, o = sh(f"./check {p} --tier {a.tier}", cwd=V, env=dict(ENV, VERIF_REPO=str(scratch)))
                vio = [l for l in o.splitlines() if l.startswith("VIOLATION")]
                sigs = [l[:300] for l in o.splitlines() if l.startswith("# ")]
                res[p] = {"exit": rc, "violations": len(vio), "with_failing_input": sum(1 for v in vio if "no-failing-input-found" not in v),
                          "signatures": sigs[:6], "wall_s": round(time.time() - t0, 1)}
            caught = [p for p, r in res.items() if r["exit"] == 1 and r["violations"]]
            meta.setdefault("reruns", []).append({"repo_head": head, "applied_with": how, "builds": rcb == 0, "tier": a.tier, "checks": res, "caught_by": caught})
            meta["caught_by"] = sorted(set(caught) | (set(meta.get("caught_by") or []) if not a.props else set(meta.get("caught_by") or [])))
            (d / "meta.json").write_text(json.dumps(meta, indent=1))
            print(i, "caught_by", caught, {p: (r["violations"], r["with_failing_input"]) for p, r in res.items()})
        finally:
            _cleanup_alt(scratch)
            sh(f"git -C /repo worktree remove --force {scratch}")
            sh("git -C /repo worktree prune")

if __name__ == "__main__":
    main()
