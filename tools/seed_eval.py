#!/usr/bin/env python3
"""Evaluate a seeded defect produced by an independent agent.

  tools/seed_eval.py <id> --from /tmp/mut-C07 --props C07[,C12..] [--tier quick] [--needs "..."]

1. takes the source diff and the untracked demonstration file(s) from the agent's worktree,
2. confirms in a FRESH scratch worktree of /repo HEAD: suite passes with the change (demo excluded),
   demo fails with the change, demo passes without it,
3. runs ./check for the given properties with VERIF_REPO pointing at the mutated tree,
4. stores /verif/seeded/<id>/{patch.diff, demo files, meta.json} and removes the scratch worktree.
"""
import argparse
import json
import os
import shutil
import subprocess
import sys
import time
from pathlib import Path

V = Path(__file__).resolve().parent.parent
GOENV = dict(os.environ, GOFLAGS="-mod=mod", GOPROXY="off", GOSUMDB="off", GOTOOLCHAIN="local")


def _cleanup_alt(scratch):
    """remove the harness binaries and generated go.mod built for a scratch tree (vlib names them by a tag of its path)"""
    import hashlib, glob, shutil
    tag = hashlib.sha1(str(Path(scratch).resolve()).encode()).hexdigest()[:8]
    for f in glob.glob(str(V / ".work" / "bin" / f"*-{tag}")):
        try:
            os.remove(f)
        except OSError:
            pass
    shutil.rmtree(V / ".work" / f"alt-{tag}", ignore_errors=True)


def sh(cmd, cwd=None, env=None, timeout=3600):
    p = subprocess.run(cmd, shell=True, cwd=cwd, env=env or GOENV, capture_output=True, text=True, timeout=timeout)
    return p.returncode, p.stdout + p.stderr


def main():
    ap = argparse.ArgumentParser()
    ap.add_argument("id")
    ap.add_argument("--from", dest="src", required=True)
    ap.add_argument("--props", required=True)
    ap.add_argument("--tier", default="quick")
    ap.add_argument("--needs", default="")
    ap.add_argument("--breaks", default="")
    a = ap.parse_args()
    src = Path(a.src)
    out = V / "seeded" / a.id
    out.mkdir(parents=True, exist_ok=True)
    rc, diff = sh("git diff", cwd=src)
    (out / "patch.diff").write_text(diff)
    rc, st = sh("git status --short", cwd=src)
    demos = [l[3:].strip() for l in st.splitlines() if l.startswith("??")]
    for d in demos:
        dst = out / ("demo__" + d.replace("/", "__"))
        shutil.copy(src / d, dst)
    scratch = Path(f"/tmp/chk-{a.id}")
    sh(f"git -C /repo worktree remove --force {scratch}")
    rc, o = sh(f"git -C /repo worktree add --detach {scratch} HEAD")
    meta = {"id": a.id, "breaks_property": a.props.split(",")[0], "checked_properties": a.props.split(","),
            "needs_to_manifest": a.needs, "what_it_breaks": a.breaks, "base_commit": sh("git -C /repo log --format=%h -1")[1].strip(),
            "demo_files": demos, "ran": []}
    try:
        rc, o = sh(f"git apply {out/'patch.diff'}", cwd=scratch)
        meta["ran"].append({"cmd": "git apply patch.diff (fresh worktree)", "rc": rc})
        if rc != 0:
            meta["confirmed"] = False
            meta["why"] = "patch does not apply: " + o[-500:]
            return finish(out, meta, scratch)
        rc_suite, o_suite = sh("go test -vet=off -count=1 ./...", cwd=scratch)
        fails = [l for l in o_suite.splitlines() if l.startswith(("FAIL", "--- FAIL"))]
        meta["ran"].append({"cmd": "go test -vet=off -count=1 ./...   (with the change, demo not present)", "rc": rc_suite, "fail_lines": fails[:5]})
        pkgs = set()
        for d in demos:
            (scratch / d).parent.mkdir(parents=True, exist_ok=True)
            shutil.copy(src / d, scratch / d)
            pkgs.add("./" + str(Path(d).parent))
        pk = " ".join(sorted(pkgs))
        rc_with, o_with = sh(f"go test -vet=off -count=1 -run 'Demo' {pk}", cwd=scratch)
        meta["ran"].append({"cmd": f"go test -run Demo {pk}   (with the change)", "rc": rc_with, "tail": o_with[-600:]})
        sh(f"git apply -R {out/'patch.diff'}", cwd=scratch)
        rc_wo, o_wo = sh(f"go test -vet=off -count=1 -run 'Demo' {pk}", cwd=scratch)
        meta["ran"].append({"cmd": f"go test -run Demo {pk}   (without the change)", "rc": rc_wo, "tail": o_wo[-300:]})
        meta["confirmed"] = (rc_suite == 0 and rc_with != 0 and rc_wo == 0)
        # run the checks against the mutated tree (demo files removed)
        for d in demos:
            (scratch / d).unlink()
        sh(f"git apply {out/'patch.diff'}", cwd=scratch)
        res = {}
        for p in a.props.split(","):
            t0 = time.time()
            env = dict(os.environ, VERIF_REPO=str(scratch))
            rc, o = sh(f"./check {p} --tier {a.tier}", cwd=V, env=env, timeout=7200)
            vio = [l for l in o.splitlines() if l.startswith("VIOLATION")]
            sigs = [l for l in o.splitlines() if l.startswith("# ")]
            res[p] = {"exit": rc, "violations": vio, "signatures": [s[:300] for s in sigs][:6], "wall_s": round(time.time() - t0, 1)}
        meta["checks"] = res
        meta["caught_by"] = [p for p, r in res.items() if r["exit"] == 1 and r["violations"]]
    finally:
        pass
    return finish(out, meta, scratch)


def finish(out, meta, scratch):
    (out / "meta.json").write_text(json.dumps(meta, indent=1))
    _cleanup_alt(scratch)
    sh(f"git -C /repo worktree remove --force {scratch}")
    sh("git -C /repo worktree prune")
    print(json.dumps({k: meta.get(k) for k in ("id", "confirmed", "caught_by")}, indent=1))
    for p, r in (meta.get("checks") or {}).items():
        print(p, r["exit"], r["violations"][:2], r["signatures"][:2])


if __name__ == "__main__":
    main()
