#!/usr/bin/env python3
"""Regenerates MANIFEST.json from tools/claims.json (the per-property level texts) and properties.jsonl."""
import json, sys
from pathlib import Path
V = Path(__file__).resolve().parent.parent
props = [json.loads(l) for l in (V / "properties.jsonl").read_text().splitlines() if l.strip()]
claims = json.loads((V / "tools" / "claims.json").read_text())
old = json.loads((V / "MANIFEST.json").read_text())
checks, na = [], []
for p in props:
    c = claims.get(p["id"])
    if not c or not c.get("claimed"):
        na.append({"property_id": p["id"], "reason": (c or {}).get("reason", "check not built yet (work in progress; planned per DESIGN.md §5)")})
        continue
    checks.append({
        "property_id": p["id"],
        "quick_cmd": f"./check {p['id']} --tier quick",
        "thorough_cmd": f"./check {p['id']} --tier thorough",
        "evidence_file": f"/verif/evidence/{p['id']}.json",
        "replay_cmd_template": "./check replay {path}",
        "engine": c["engine"],
        "level_claimed": {"category": "proof", "text": c["text"], "design_ref": c.get("design_ref", "DESIGN.md §5 " + p["id"])},
        "level_note": c["note"],
        "technique": c["technique"],
    })
m = {"version": 1, "setup_cmd": "./check setup", "hooks": old["hooks"], "engines": claims["_engines"], "checks": checks,
     "notes": old.get("notes", ""), "not_applicable": na}
(V / "MANIFEST.json").write_text(json.dumps(m, indent=1))
print(f"{len(checks)} claimed, {len(na)} not applicable")
