"""Shared helpers for /verif checks.  Pure stdlib.  See ENGINE_CONTRACT.md.

Everything a check needs from the filesystem lives under /verif (scratch in /verif/.work);
nothing is kept under /tmp.
"""
import contextlib
import fcntl
import json
import os
import re
import shutil
import subprocess
import sys
import time
from pathlib import Path

VERIF = Path(__file__).resolve().parent
REPO = Path(os.environ.get("VERIF_REPO", "/repo"))
WORK = VERIF / ".work"
BIN = WORK / "bin"
LEAN = VERIF / "lean"
HARNESS = VERIF / "harness"

ALLOWED_AXIOMS = {"propext", "Classical.choice", "Quot.sound"}
FORBIDDEN = [
    r"\bsorry\b", r"\badmit\b", r"^\s*axiom\s", r"\bnative_decide\b", r"\bbv_decide\b",
    r"\bimplemented_by\b", r"\bunsafe\s", r"maxHeartbeats\s+0\b", r"\bsorryAx\b",
    r"\bextern\b", r"\bcsimp\b",
]

GOENV = {
    "GOFLAGS": "-mod=mod",
    "GOPROXY": "off",
    "GOSUMDB": "off",
    "GOTOOLCHAIN": "local",
    "CGO_ENABLED": os.environ.get("CGO_ENABLED", "1"),
}


def goenv():
    env = dict(os.environ)
    env.update(GOENV)
    env.setdefault("GOCACHE", str(Path.home() / ".cache" / "go-build"))
    return env


@contextlib.contextmanager
def flock(name):
    """Exclusive inter-process lock named `name` (a lock file under .work/locks)."""
    d = WORK / "locks"
    d.mkdir(parents=True, exist_ok=True)
    f = open(d / (re.sub(r"[^A-Za-z0-9_.-]", "_", name) + ".lock"), "w")
    try:
        fcntl.flock(f, fcntl.LOCK_EX)
        yield
    finally:
        fcntl.flock(f, fcntl.LOCK_UN)
        f.close()


def run(cmd, cwd=None, env=None, timeout=None, input=None):
    """Run, capture; returns (rc, stdout, stderr). Never raises on non-zero."""
    try:
        p = subprocess.run(cmd, cwd=cwd, env=env, timeout=timeout, input=input,
                           capture_output=True, text=True, errors="replace")
        return p.returncode, p.stdout, p.stderr
    except subprocess.TimeoutExpired as e:
        out = e.stdout.decode(errors="replace") if isinstance(e.stdout, bytes) else (e.stdout or "")
        err = e.stderr.decode(errors="replace") if isinstance(e.stderr, bytes) else (e.stderr or "")
        return 124, out, err + "\nTIMEOUT"


# ------------------------------------------------------------------ Lean side

def strip_lean_comments(text):
    """Remove -- line comments, /- -/ block comments (nested) and string literals (approx.)."""
    out = []
    i, n, depth = 0, len(text), 0
    in_str = False
    while i < n:
        c = text[i]
        if depth > 0:
            if text.startswith("/-", i):
                depth += 1; i += 2
            elif text.startswith("-/", i):
                depth -= 1; i += 2
            else:
                if c == "\n":
                    out.append("\n")
                i += 1
            continue
        if in_str:
            if c == "\\":
                i += 2
                continue
            if c == '"':
                in_str = False
            if c == "\n":
                out.append("\n")
            i += 1
            continue
        if text.startswith("/-", i):
            depth = 1; i += 2
            continue
        if text.startswith("--", i):
            while i < n and text[i] != "\n":
                i += 1
            continue
        if c == '"':
            in_str = True
            i += 1
            continue
        out.append(c)
        i += 1
    return "".join(out)


def grep_forbidden(pkg_dir):
    """Return list of 'file:line: token' for forbidden tokens in non-comment Lean text of a package."""
    hits = []
    for p in sorted(Path(pkg_dir).rglob("*.lean")):
        if ".lake" in p.parts:
            continue
        txt = strip_lean_comments(p.read_text(errors="replace"))
        for ln, line in enumerate(txt.split("\n"), 1):
            for pat in FORBIDDEN:
                if re.search(pat, line):
                    hits.append(f"{p.relative_to(VERIF)}:{ln}: {pat}")
    return hits


def lake_build(pkg_dir, targets=None, timeout=3000):
    """lake build in pkg_dir under a per-package lock. Returns (ok, log)."""
    pkg_dir = Path(pkg_dir)
    with flock("lake-" + pkg_dir.name):
        cmd = ["lake", "build"] + (targets or [])
        rc, out, err = run(cmd, cwd=pkg_dir, timeout=timeout)
    return rc == 0, (out + err)


_AX_RE = re.compile(r"^'([^']+)' depends on axioms: \[(.*?)\]", re.S | re.M)
_NOAX_RE = re.compile(r"^'([^']+)' does not depend on any axioms", re.M)


def audit(pkg_dir, audit_file="Audit.lean", timeout=1800):
    """Run `lake env lean Audit.lean`; returns (ok, {theorem: [axioms]}, log)."""
    pkg_dir = Path(pkg_dir)
    with flock("lake-" + pkg_dir.name):
        rc, out, err = run(["lake", "env", "lean", audit_file], cwd=pkg_dir, timeout=timeout)
    res = {}
    txt = out + "\n" + err
    for m in _AX_RE.finditer(txt):
        axs = [a.strip() for a in m.group(2).replace("\n", " ").split(",") if a.strip()]
        res[m.group(1)] = axs
    for m in _NOAX_RE.finditer(txt):
        res[m.group(1)] = []
    return rc == 0, res, txt


def leanchecker(pkg_dir, modules, timeout=3000):
    pkg_dir = Path(pkg_dir)
    with flock("lake-" + pkg_dir.name):
        rc, out, err = run(["lake", "env", "leanchecker"] + list(modules), cwd=pkg_dir, timeout=timeout)
    return rc == 0, out + err


def lean_check(pkg, theorems, thorough=False, checker_modules=None, audit_file="Audit.lean",
               build_targets=None):
    """Full Lean-side obligation check for one property.

    pkg: directory name under /verif/lean.  theorems: fully qualified theorem names that must be
    present in the audit output with axioms within ALLOWED_AXIOMS.
    Returns a dict:
      built, build_log_tail, forbidden_hits, theorems:[{name, axioms, ok, why}], ok, checker_cmd,
      leanchecker_ok (thorough only)
    """
    pkg_dir = LEAN / pkg
    res = {"package": f"lean/{pkg}", "theorems": [], "forbidden_hits": [], "built": False,
           "checker_cmd": f"(cd lean/{pkg} && lake build && lake env lean {audit_file})"}
    ok, log = lake_build(pkg_dir, build_targets)
    res["built"] = ok
    res["build_log_tail"] = log[-3000:]
    res["forbidden_hits"] = grep_forbidden(pkg_dir)
    axmap = {}
    if ok:
        aok, axmap, alog = audit(pkg_dir, audit_file)
        res["audit_ok"] = aok
        if not aok:
            res["build_log_tail"] += "\nAUDIT:\n" + alog[-3000:]
    for t in theorems:
        ent = {"name": t, "axioms": axmap.get(t), "ok": False, "why": ""}
        if not ok:
            ent["why"] = "package does not build"
        elif t not in axmap:
            ent["why"] = "theorem missing from audit output (not proved / not elaborated)"
        else:
            bad = [a for a in axmap[t] if a not in ALLOWED_AXIOMS]
            if bad:
                ent["why"] = "depends on disallowed axioms: " + ", ".join(bad)
            else:
                ent["ok"] = True
        res["theorems"].append(ent)
    if thorough and ok:
        mods = checker_modules or []
        if mods:
            cok, clog = leanchecker(pkg_dir, mods)
            res["leanchecker_ok"] = cok
            res["leanchecker_modules"] = mods
            res["checker_cmd"] += f" && lake env leanchecker {' '.join(mods)}"
            if not cok:
                res["build_log_tail"] += "\nLEANCHECKER:\n" + clog[-2000:]
    res["ok"] = (ok and not res["forbidden_hits"] and all(t["ok"] for t in res["theorems"])
                 and res.get("leanchecker_ok", True) and res.get("audit_ok", True))
    return res


def lean_exe(pkg, exe):
    """Path of a built lean_exe (built by lake_build of the package)."""
    return LEAN / pkg / ".lake" / "build" / "bin" / exe


def lean_failures(prop, leanres):
    """Turn a lean_check result into Failure dicts (kind 'proof')."""
    fails = []
    if not leanres["built"]:
        fails.append(failure("proof", f"{prop}/lean-build/{leanres['package']}",
                             "Lean package no longer builds: " + leanres["build_log_tail"][-800:],
                             {"package": leanres["package"], "log": leanres["build_log_tail"]}, False))
        return fails
    for h in leanres["forbidden_hits"]:
        fails.append(failure("proof", f"{prop}/forbidden-token/{h}", "forbidden token in Lean source: " + h,
                             {"hit": h}, False))
    for t in leanres["theorems"]:
        if not t["ok"]:
            fails.append(failure("proof", f"{prop}/theorem/{t['name']}", f"theorem {t['name']}: {t['why']}",
                                 {"theorem": t["name"], "why": t["why"], "package": leanres["package"]}, False))
    if leanres.get("leanchecker_ok") is False:
        fails.append(failure("proof", f"{prop}/leanchecker/{leanres['package']}", "leanchecker rejected the compiled modules",
                             {"package": leanres["package"]}, False))
    return fails


# ------------------------------------------------------------------ Go side

def _alt_repo():
    return REPO.resolve() != Path("/repo")


def _repo_tag():
    import hashlib
    return "" if not _alt_repo() else "-" + hashlib.sha1(str(REPO.resolve()).encode()).hexdigest()[:8]


def go_prepare():
    """Make sure go.sum matches the repo's (the harness has no dependency of its own).
    With VERIF_REPO=<other tree> a go.mod replacing the module by that tree is generated under .work
    and used through -modfile, so mutants can be checked in a scratch worktree without touching /repo.
    Returns extra `go build` arguments."""
    src = REPO / "go.sum"
    if not _alt_repo():
        dst = HARNESS / "go.sum"
        if src.exists():
            data = src.read_bytes()
            if not dst.exists() or dst.read_bytes() != data:
                dst.write_bytes(data)
        return []
    d = WORK / ("alt" + _repo_tag())
    d.mkdir(parents=True, exist_ok=True)
    gomod = (HARNESS / "go.mod").read_text().replace("=> /repo", "=> " + str(REPO.resolve()))
    (d / "go.mod").write_text(gomod)
    if src.exists():
        (d / "go.sum").write_bytes(src.read_bytes())
    return ["-modfile=" + str(d / "go.mod")]


def go_build(cmd, race=False, tags="verif", timeout=1200):
    """Build harness/cmd/<cmd> against the repo's working tree. Returns (ok, binary_path, log)."""
    BIN.mkdir(parents=True, exist_ok=True)
    name = cmd + ("-race" if race else "") + _repo_tag()
    out = BIN / name
    with flock("go-" + name):
        extra = go_prepare()
        if out.exists():
            out.unlink()          # never run a stale binary
        args = ["go", "build"] + extra + ["-tags", tags, "-o", str(out)]
        if race:
            args.append("-race")
        args.append("./cmd/" + cmd)
        rc, so, se = run(args, cwd=HARNESS, env=goenv(), timeout=timeout)
    return rc == 0 and out.exists(), out, so + se


# ------------------------------------------------------------------ static tie: source skeleton

def skeleton_tie(prop, set_name, only=None):
    """Static tie shared by the engines with a hand-written model: the syntactic skeleton (harness/cmd/ruextract-core,
    file set `set_name`) of the modelled functions in the current tree must be the one the model was written against
    (engines/skeleton_<set>.json, regenerated by tools/mkskeleton.py).  Returns (obligation dict, failures)."""
    import difflib
    exp_path = VERIF / "engines" / f"skeleton_{set_name}.json"
    name = f"source skeleton (ruextract-core --set {set_name}) of the modelled functions = the skeleton the model was written against"
    ok, binary, log = go_build("ruextract-core")
    if not ok:
        return {"name": name, "ok": False}, [failure("tie", f"{prop}/tie/source-skeleton/extractor-build",
                                                     "ruextract-core does not build: " + log[-800:], {"log": log[-3000:]}, False)]
    rc, out, err = run([str(binary), "--repo", str(REPO), "--set", set_name], timeout=120)
    if rc != 0:
        return {"name": name, "ok": False}, [failure(
            "tie", f"{prop}/tie/source-skeleton/extractor-rejects-source",
            "ruextract-core cannot parse the modelled files of the current tree: " + err[-800:], {"stderr": err[-3000:]}, False)]
    cur = {f["name"]: f for f in json.loads(out)}
    exp = {f["name"]: f for f in json.loads(exp_path.read_text())["functions"]}
    if only:   # a property that depends on a few functions of a set only
        cur = {k: v for k, v in cur.items() if any(o in k for o in only)}
        exp = {k: v for k, v in exp.items() if any(o in k for o in only)}
        name += " [" + ", ".join(only) + "]"
    fails = []
    for nm in sorted(set(cur) | set(exp)):
        a, b = exp.get(nm), cur.get(nm)
        if a and b and a["sha256"] == b["sha256"]:
            continue
        if a is None:
            what, diff = "new function/declaration in a modelled file", b["tokens"][:40]
        elif b is None:
            what, diff = "function/declaration removed from a modelled file", a["tokens"][:40]
        else:
            what = "body differs from the one the model mirrors"
            diff = [l for l in difflib.unified_diff(a["tokens"], b["tokens"], "modelled", "current", lineterm="", n=2)][:60]
        fails.append(failure(
            "tie", f"{prop}/tie/source-skeleton/{nm}",
            f"{nm}: {what}; the hand-written model is no longer known to mirror this function (checks, bounds, collaborator "
            "calls, slice/map operations; renames and log/error texts are ignored):\n" + "\n".join(diff),
            {"no_longer_checks": "correspondence model <-> " + nm, "function": nm, "what": what, "diff": diff}, False))
    return {"name": name + f" ({len(exp)} functions/declarations)", "ok": not fails}, fails


# ------------------------------------------------------------------ regenerated arithmetic (lean/core/Core/GenBlocks.lean)

ARITH_THEOREMS = {"C08": ["Ru.Gen_blocksRange_spec", "Ru.C08_blocks_gen_eq_page", "Ru.C14_blocks_no_slice_panic"],
                  "C14": ["Ru.Gen_blocksRange_spec", "Ru.C14_blocks_no_slice_panic"],
                  "C01": ["Ru.C01_fee_input_step", "Ru.C01_fee_output_step", "Ru.C01_fee_outputs_loop", "Ru.C01_fee_final",
                          "Ru.Gen_verifyBlockGuards_spec", "Ru.C01_verifyBlock_reward_gen"],
                  "C04": ["Ru.Gen_addBlockGuards_spec", "Ru.C04_addBlock_gen", "Ru.Gen_verifyBlockGuards_spec", "Ru.C04_verifyBlock_gen",
                          "Ru.C04_verifyTxs_window_gen"],
                  "C06": ["Ru.Gen_updateGuards_spec", "Ru.C06_isFork_gen", "Ru.C06_majority_gen", "Ru.C06_longest_gen", "Ru.C06_minmax_gen",
                          "Ru.C06_isDifferent_gen"],
                  "C07": ["Ru.Gen_updateUtxosGuards_spec", "Ru.C07_creates_gen", "Ru.C07_slotLive_gen", "Ru.C07_owner_list_gen"],
                  "C02": ["Ru.Gen_updateUtxosGuards_spec", "Ru.C02_index_bound_gen", "Ru.C07_slotLive_gen"],
                  "C17": ["Neigh.Gen_minGuards_spec", "Neigh.C17_goMin_gen", "Neigh.Gen_selectOutboundsGuards_spec", "Neigh.C17_selectLoop_gen",
                          "Neigh.Gen_synchronizeGuards_spec", "Neigh.C17_source_gen"],
                  "C11": ["Ru.Gen_addTransactionGuards_spec", "Ru.C11_admitCheck_gen", "Ru.Gen_validateGuards_spec",
                          "Ru.C11_produce_refusals_gen", "Ru.C11_produceLoop_window_gen"]}
ARITH_MODULE = {"C08": ["Core.Props.C08gen"], "C14": ["Core.Props.C08gen"], "C01": ["Core.Props.C01gen", "Core.Props.Cguards"],
                "C04": ["Core.Props.Cguards"], "C11": ["Core.Props.Cguards11"], "C06": ["Core.Props.C06guards"],
                "C07": ["Core.Props.C07guards"], "C02": ["Core.Props.C07guards"], "C17": ["Neigh.Guards"]}
# the translation units (sections of ruextract-arith) each property's theorems are about: an untranslatable construct in
# another unit does not concern the property
ARITH_SECTIONS = {"C08": ["blocks"], "C14": ["blocks"], "C01": ["fee", "guards:verifyBlock"], "C04": ["guards:AddBlock", "guards:verifyBlock"],
                  "C11": ["guards:addTransaction", "guards:Validate"], "C06": ["guards:Update"], "C07": ["guards:UpdateUtxos"],
                  "C02": ["guards:UpdateUtxos"], "C17": ["guards:Synchronize", "guards:selectOutbounds", "guards:min"]}
ARITH_PKG = {"C17": "neigh"}
ARITH_WHAT = {"C08": "(*Blockchain).Blocks", "C14": "(*Blockchain).Blocks",
              "C01": "(*UtxosRegistry).CalculateFee and the reward guard of (*Blockchain).verifyBlock",
              "C04": "the date guards of (*Blockchain).AddBlock and (*Blockchain).verifyBlock",
              "C11": "the date guards of (*TransactionsPool).addTransaction and (*TransactionsPool).Validate",
              "C06": "the fork-choice conditions of (*Blockchain).Update",
              "C07": "the conditions of (*UtxosRegistry).UpdateUtxos over counts, values and income flags",
              "C02": "the conditions of (*UtxosRegistry).UpdateUtxos over counts, values and income flags",
              "C17": "the integer conditions of (*Neighborhood).Synchronize, selectOutbounds and min"}
ARITH_SRC = {"C08": ["verification/blockchain.go"], "C14": ["verification/blockchain.go"],
             "C01": ["verification/utxos_registry.go", "verification/blockchain.go"], "C04": ["verification/blockchain.go"],
             "C11": ["validation/transactions_pool.go"], "C06": ["verification/blockchain.go"],
             "C07": ["verification/utxos_registry.go"], "C02": ["verification/utxos_registry.go"],
             "C17": ["network/neighborhood.go"]}


def arith_tie(prop):
    """Regenerate lean/core/Core/GenBlocks.lean from REPO's blockchain.go (harness/cmd/ruextract-arith: Go's uint64
    arithmetic of (*Blockchain).Blocks as Lean UInt64), then check the theorems of Core/Props/C08gen.lean against it.
    Returns (generated entry, obligations, failures, theorem entries).  The committed copy is restored afterwards when
    the tree checked is a scratch tree."""
    import hashlib
    pkg = ARITH_PKG.get(prop, "core")
    gen_rel = "Neigh/Gen.lean" if pkg == "neigh" else "Core/GenBlocks.lean"
    gen = LEAN / pkg / gen_rel
    srcs = [REPO / "validatornode" / "application" / x for x in ARITH_SRC[prop]]
    src = srcs[0]
    mods = ARITH_MODULE[prop]
    mod = " + ".join(mods)
    what = ARITH_WHAT[prop]
    obligations, failures, theorems = [], [], []
    ok, binary, log = go_build("ruextract-arith")
    if not ok:
        failures.append(failure("tie", f"{prop}/tie/arith/translator-build", "ruextract-arith does not build: " + log[-800:], {}, False))
        return None, [{"name": "translator ruextract-arith builds", "ok": False}], failures, theorems
    with flock(f"regen-{pkg}-arith"):
        committed = gen.read_text() if gen.exists() else ""
        rc, out, err = run([str(binary), "--repo", str(REPO)] + (["--group", pkg] if pkg != "core" else []), timeout=60)
        sec_errs = [l.split("SECTION-ERROR ", 1)[1] for l in err.splitlines() if "SECTION-ERROR " in l]
        mine = [e for e in sec_errs if e.split(":", 1)[0] in ARITH_SECTIONS[prop] or
                any(e.startswith(x + ":") for x in ARITH_SECTIONS[prop])]
        text = out if rc == 0 and not mine else None
        if mine:
            err = "\n".join(mine)
        generated = {"file": f"lean/{pkg}/{gen_rel}", "from": ", ".join(str(x) for x in srcs),
                     "source_sha256": hashlib.sha256(b"".join(x.read_bytes() for x in srcs if x.exists())).hexdigest(),
                     "translator": "harness/cmd/ruextract-arith", "regenerated_this_run": text is not None,
                     "identical_to_previous_copy": (text == committed) if text is not None else None}
        obligations.append({"name": "translator ruextract-arith accepts (*Blockchain).Blocks, (*UtxosRegistry).CalculateFee and the integer guards of AddBlock, verifyBlock, addTransaction, Validate (fail-closed)", "ok": text is not None})
        if text is None:
            failures.append(failure(
                "tie", f"{prop}/tie/arith/translator-rejects-source",
                "the Go→Lean translator rejects the current (*Blockchain).Blocks / (*UtxosRegistry).CalculateFee / integer guards (a construct outside "
                "the translated fragment), so the Gen.* definitions cannot be regenerated and " + ", ".join(ARITH_THEOREMS[prop]) +
                " are no longer about the code: " + err[-600:], {"no_longer_checks": ARITH_THEOREMS[prop], "translator_error": err[-1500:]}, False))
            return generated, obligations, failures, theorems
        wrote = False
        try:
            if text != committed:
                gen.write_text(text)
                wrote = True
            okb, blog = lake_build(LEAN / pkg, mods)
            axmap = {}
            if okb:
                audit_file = WORK / f"Arith-{prop}.lean"
                audit_file.parent.mkdir(parents=True, exist_ok=True)
                audit_file.write_text("-- generated by vlib.arith_tie; do not edit\n" + "".join("import " + m + "\n" for m in mods) + "\n" +
                                      "\n".join(f"#print axioms {t}" for t in ARITH_THEOREMS[prop]) + "\n")
                aok, axmap, alog = audit(LEAN / pkg, str(audit_file))
            for t in ARITH_THEOREMS[prop]:
                ent = {"name": t, "axioms": axmap.get(t), "ok": False, "why": ""}
                if not okb:
                    ent["why"] = "no longer checks over the definitions regenerated from " + src.name
                elif t not in axmap:
                    ent["why"] = "theorem missing from audit output"
                elif [a for a in axmap[t] if a not in ALLOWED_AXIOMS]:
                    ent["why"] = "depends on disallowed axioms"
                else:
                    ent["ok"] = True
                theorems.append(ent)
            allok = okb and all(t["ok"] for t in theorems)
            obligations.append({"name": f"theorems of {mod} over the arithmetic of {what} regenerated from the source", "ok": allok})
            if not allok:
                failures.append(failure(
                    "proof", f"{prop}/theorem/arith/" + {"C01": "Gen.fee", "C04": "Gen.guards", "C11": "Gen.guards", "C06": "Gen.updateGuards", "C07": "Gen.updateUtxosGuards", "C02": "Gen.updateUtxosGuards", "C17": "Gen.selectOutboundsGuards"}.get(prop, "Gen.blocksRange"),
                    f"the theorems of {mod} no longer check over the arithmetic of {what} regenerated from the current "
                    f"{', '.join(x.name for x in srcs)}:\n" + text[-2600:] + "\n" + (blog[-1200:] if not okb else ""),
                    {"no_longer_checks": ARITH_THEOREMS[prop], "generated": text, "build_log": blog[-3000:] if not okb else ""}, False))
        finally:
            if wrote and _alt_repo():
                gen.write_text(committed)
                lake_build(LEAN / pkg, mods)
    return generated, obligations, failures, theorems


# ------------------------------------------------------------------ results

def failure(kind, signature, detail, replay, found_input):
    """kind: diff | prop | proof | tie | table.  signature: stable, specific string used for
    known-findings matching.  replay: JSON-serialisable payload written to the replay file.
    found_input: True when a concrete failing input/state/history on the implementation is in replay."""
    return {"kind": kind, "signature": signature, "detail": detail, "replay": replay,
            "found_input": bool(found_input)}


def result(lean=None, corr=None, failures=None, generated=None, assumptions=None,
           trusted_base=None, extra_obligations=None, notes=None):
    """Engine result.  corr: dict with evaluations, distinct_nontrivial, rule, samples (list), plus any
    histograms; extra_obligations: list of {"name":..., "ok": bool} (ties, tables, corr streams)."""
    return {"lean": lean, "corr": corr or {}, "failures": failures or [], "generated": generated or [],
            "assumptions": assumptions or [], "trusted_base": trusted_base or [],
            "extra_obligations": extra_obligations or [], "notes": notes or ""}


class Ctx:
    def __init__(self, prop, tier, seed, work):
        self.prop = prop
        self.tier = tier
        self.seed = seed
        self.work = Path(work)
        self.thorough = tier == "thorough"
        self.t0 = time.time()

    def log(self, *a):
        print("[%s %6.1fs]" % (self.prop, time.time() - self.t0), *a, file=sys.stderr, flush=True)


def ncpu():
    return max(1, (os.cpu_count() or 4))
